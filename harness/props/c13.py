"""C13 Coarse asset frequency and periodicity."""
from ..comp import periodic as PE

ID = 'C13'
THEOREMS = PE.THEOREMS + [
    ('EAO.Properties.C19', 'EAO.C19.coarse_partition_whole', 'a coarse window that is a whole number of coarse steps partitions the fine steps without loss (sum of dt preserved)'),
]
PARTIAL = ['makePeriodic_is_merge / makePeriodic_equiv need the groups to form a partition of the variables (one group per variable, a transport\'s two nodes, coarse AND periodic with period/duration multiples of the coarse step); without it the code itself is wrong (known finding F-13f, machine-checked counterexample periodic_groups_complete_counterexample)',
           'the averaging of prices over the minor steps and the first-minor-step sampling of capacities/discount are part of the BUILDERS with freq (SimpleContract, Transport, Storage): tied by the correspondence of extendMinor / makePeriodic on recorded calls and by the fine-plus-equalities oracle, not by a builder theorem']
COMPONENTS = ['makePeriodic on the problem without the option + step labels vs the real periodic problem (recorded calls of __make_periodic__)', 'extendMinor vs recorded calls of __extend_mapping_to_minor_grid__', 'step labels vs the label table the code builds']
RULE = ('assets accepting the options (SimpleContract, Contract with takes, Transport, ExtendedTransport, Storage, MultiCommodityContract; one- and two-variable forms) with freq, periodicity [+ duration] or both, DST grids with 23/25-hour days; '
        'oracles: rate constant within each coarse interval, dispatch repeats at the same position of every period within a duration, optimal value = value of the fine problem with the equalities added explicitly (averaged data); '
        'non-trivial = option changes the problem and the value comparison ran; distinct by case hash')
ASSUMPTIONS = ['values compared with tolerance 1e-6 relative']
EXPLANATION = 'generic merge_columns theorem + proof that the literal loop of __make_periodic__ is such a merge (aligned case) + weights of the minor-grid extension; correspondence on recorded calls; fine-plus-equalities oracle'


def scenarios(seed, tier):
    n = 320 if tier == 'quick' else 1920
    return PE.cases(seed, n)


def run_case(case, drv):
    r = {'evaluated': 1, 'nontrivial': False, 'features': [], 'disagreements': [], 'violations': []}
    ir = PE.run_impl(case)
    f = r['features']
    f.append('%s/%s' % (case['focus']['type'], case['kind']))
    if 'err' in ir['with']:
        f.append('err:' + ir['with']['err'])
    r['evaluated'] += len(ir['ext']) + len(ir['per'])
    for d in PE.compare(case, ir, drv):
        r['disagreements'].append({'component': 'periodic/coarse', 'detail': d})
    # an option that is set must go through its mechanism: an asset declared periodic / on a coarser frequency whose set-up works
    # and has variables, but for which no call of __make_periodic__ / __extend_mapping_to_minor_grid__ was recorded, ignored it
    if 'err' not in ir['with'] and len(ir['with'].get('c', [])) > 0:
        if 'periodicity' in case['opt'] and not ir['per']:
            r['disagreements'].append({'component': 'periodic/coarse', 'detail': 'asset %s declared periodic (%s) but no call of __make_periodic__ was recorded during its set-up' % (
                case['focus']['type'], case['opt']['periodicity'])})
        if 'freq' in case['opt'] and not ir['ext']:
            f.append('freq-without-extension')
    if case.get('oracle') and 'err' not in ir['with']:
        v, feats = PE.oracle(case, ir)
        r['violations'] = v
        r['nontrivial'] = 'nontrivial' in feats
        f += [x for x in feats if x not in ('nontrivial', 'trivial')]
    else:
        r['nontrivial'] = bool(ir['ext'] or ir['per'])
    return r
