"""C13 Coarse asset frequency and periodicity."""
from ..comp import periodic as PE
from ..comp import coarsebuild as CB
from ..comp import coarsestorage as CS
from ..comp import multiper as MP

ID = 'C13'
THEOREMS = PE.THEOREMS + [
    ('EAO.Properties.C19', 'EAO.C19.coarse_partition_whole', 'a coarse window that is a whole number of coarse steps partitions the fine steps without loss (sum of dt preserved)'),
]
THEOREMS = THEOREMS + CB.THEOREMS_C13_BUILDERS + CS.THEOREMS_C13_STORAGE
PARTIAL = ['makePeriodic_is_merge / makePeriodic_equiv need the groups to form a partition of the variables (one group per variable, a transport\'s two nodes, coarse AND periodic with period/duration multiples of the coarse step); without it the code itself is wrong (known finding F-13f, machine-checked counterexample periodic_groups_complete_counterexample)',
           'the averaging of prices over the minor steps and the first-minor-step sampling of capacities/discount are part of the BUILDERS with freq (SimpleContract, Transport, Storage): tied by the correspondence of extendMinor / makePeriodic on recorded calls and by the fine-plus-equalities oracle (windows inside the horizon only as whole numbers of coarse steps: a remainder is known finding F-19b), not by a builder theorem',
           'stepLabels is the literal model of the code\'s counters: like the code it counts the positions of a partial first period from the grid start, so for an anchored period (W) on a grid that does not start on the anchor model and code agree with each other but not with the statement (known finding F-13m; the oracle counts by the clock)',
           'the whole-horizon duration [tp[0], end + (end - tp[0])] of the repaired code (F-13l) is handed to the model as recorded boundaries like the date_range results; the model\'s own wholeDuration (tp[-1] + (tp[-1] - tp[0]), the line before the repair) is no longer used by the harness - it yields the same labels, also for a single step']
COMPONENTS = ['makePeriodic on the problem without the option + step labels vs the real periodic problem (recorded calls of __make_periodic__)', 'extendMinor vs recorded calls of __extend_mapping_to_minor_grid__', 'step labels vs the label table the code builds', 'price data handed to the set-up (in the drawn form) vs the same data made afresh: unchanged by the set-up']
RULE = ('assets accepting the options (SimpleContract, Contract with takes, Transport, ExtendedTransport, Storage, MultiCommodityContract; one- and two-variable forms) with freq, periodicity [+ duration] or both, DST grids with 23/25-hour days; '
        'stream "window": coarse assets of every type whose window is a whole number of coarse steps and starts and/or ends strictly inside the horizon (at any grid point), '
        'with a price / costs_time_series that varies per step and has its own level before, in each coarse interval of, and after the window (takes cut at the asset\'s own coarse cuts); '
        'stream "tiny": every periodic asset type on grids with ONE step and with two steps, without and with a duration (fixed finding F-13l); '
        'stream "anchor" (probe): anchored period W on grids starting 0..6 days after the anchor, fine steps d/12h/6h, every type (known finding F-13m, kind anchored_period_lead); '
        'forms of the price data (every stream): per series drawn among float64 / int64 / int32 array, list of floats / of ints, pandas Series (float / int) - as far as the unchanged code accepts the form for the use of the series (lists only as a contract\'s price) - '
        'or all series together as a DataFrame (default index or indexed by the grid\'s time points, columns float64 / int64 / int32); a series in an integer form is whole-numbered (drawn values rounded), '
        'its mean over a coarse interval in general is not; the reference works on its own float arrays and the data handed to the real code must be unchanged after the set-up; '
        'oracles: rate constant within each coarse interval, dispatch repeats at the same position of every period within a duration - positions counted by the clock from the begin of the period, '
        'also when the first period began before the grid -, optimal value = value of the fine problem with the equalities added explicitly (averaged data), '
        'and periodic_builds: a periodic asset (no coarse frequency, period boundaries of equal length) whose fine problem with the equalities exists must not raise in its set-up; '
        'stream "multiper" (comp/multiper.py): SEVERAL assets with options in ONE portfolio - two to four assets of any of the types, each with its OWN '
        '(periodicity, periodicity_duration, freq): the periodic ones share the periodicity and differ in the duration (none / one / another, also durations that cut periods), '
        'or share the duration and differ in the periodicity, or both drawn per asset; with some probability a coarse asset and / or an aligned coarse AND periodic asset next to them; '
        'fine steps 15min .. d, every duration with two or more blocks on the grid where the size allows, assets in drawn order, own windows / takes / price series per asset; '
        'for 60 % of the cases ANOTHER portfolio is set up on the SAME Timegrid object and the same price data object (before or after): the same assets made afresh with options exchanged, '
        'a duration added / dropped / replaced, another periodicity, one asset without options, or a part of the assets only; '
        'per set-up and per asset the oracles periodic_repeats (by the asset\'s OWN duration blocks and positions), coarse_constant_rate (its OWN coarse intervals), '
        'value_vs_fine_with_equalities against the fine portfolio in which EVERY such asset is replaced by its ordinary version plus its own equalities (own grid object, own float data), '
        'and periodic_builds (the set-up must not raise when no asset is coarse and the reference exists); '
        'non-trivial = option changes the problem and the value comparison ran (multiper: two or more of the assets with options dispatch); distinct by case hash')
ASSUMPTIONS = ['values compared with tolerance 1e-6 relative',
               'forms of the price data limited to those the unchanged code accepts (a list as a storage\'s price, a transport\'s cost series or a limit by name raises TypeError: not generated); a Storage price as column of a frame indexed by time points relies on pandas 2.x indexing a Series by position',
               'stream multiper stays outside the known deviations by construction (anchored period W only on grids that start on the anchor, coarse steps dividing the horizon, no wacc / varying limits / cost_store on a coarse asset, coarse AND periodic only aligned); every asset is classified all the same (facts kind / kinds)',
               'periodic_builds judges a raising set-up only for periodicity without freq and equally spaced period boundaries (unequal ones are rejected by the code on purpose); other raising set-ups are counted as a feature, not judged']
EXPLANATION = 'generic merge_columns theorem + proof that the literal loop of __make_periodic__ is such a merge (aligned case) + weights of the minor-grid extension; correspondence on recorded calls; fine-plus-equalities oracle (also for windows strictly inside the horizon, where the averaged price of the first / last coarse interval must not see the steps outside; the averaged price is that of the NUMBERS given, whatever the form - integer array, list, Series, frame - in which they are handed in); the statement is per ASSET: in a portfolio with several periodic / coarse assets, and on a grid object used for more than one set-up, each asset is judged against the fine problem with its own equalities (nothing the package keeps per grid object or per portfolio may carry one asset\'s periods, durations or coarse steps over to another)'


def scenarios(seed, tier):
    n = 320 if tier == 'quick' else 1920
    yield from PE.cases(seed, n)
    # the builders WITH freq (SimpleContract, Transport) against their model, the fine comparison problem of the equivalence theorems
    # against the real fine builder, and the equivalence itself on the real code (comp/coarsebuild.py)
    import random
    rnd = random.Random(seed * 104729 + 1313)
    for i in range(n // 2):
        c = CB.gen_case(random.Random(rnd.getrandbits(48)))
        yield 'cb%d' % i, {'_stream': 'coarsebuild', 'case': c, 'seed': rnd.getrandbits(32)}
    # the Storage builder WITH freq (all options) against its model, its fine comparison problem, the read-out (comp/coarsestorage.py)
    rnd2 = random.Random(seed * 104729 + 1331)
    for i in range(n // 3):
        c = CS.gen_case(random.Random(rnd2.getrandbits(48)), malformed=(i % 5 == 4))
        yield 'cs%d' % i, {'_stream': 'coarsestorage', 'case': c, 'seed': rnd2.getrandbits(32)}
    # several assets with their own periodicity / duration / coarse frequency in one portfolio, several set-ups on one grid object
    # (comp/multiper.py): every asset judged by its own fine-plus-equalities reference
    yield from MP.cases(seed, n // 4)


def run_case(case, drv):
    if isinstance(case, dict) and case.get('_stream') == MP.STREAM:
        return MP.run_case(case, drv)
    if isinstance(case, dict) and case.get('_stream') == 'coarsebuild':
        import random
        rec = CB.run_case(case['case'], drv, random.Random(case['seed']))
        return {'evaluated': 1, 'nontrivial': bool(rec.get('nvars')), 'features': ['stream:coarsebuild', 'impl:' + str(rec.get('impl'))[:40]] + list(rec.get('features', [])),
                'disagreements': [d if isinstance(d, dict) else {'component': 'coarse builder', 'detail': d} for d in rec['disagreements']],
                'violations': rec['violations']}
    if isinstance(case, dict) and case.get('_stream') == 'coarsestorage':
        import random
        rec = CS.run_case(case['case'], drv, random.Random(case['seed']))
        return {'evaluated': 1, 'nontrivial': rec.get('impl') == 'ok', 'features': ['stream:coarsestorage', 'impl:' + str(rec.get('impl'))[:40]] + list(rec.get('features', [])),
                'disagreements': [d if isinstance(d, dict) else {'component': 'coarse storage', 'detail': d} for d in rec['disagreements']],
                'violations': rec['violations']}
    r = {'evaluated': 1, 'nontrivial': False, 'features': [], 'disagreements': [], 'violations': []}
    ir = PE.run_impl(case)
    f = r['features']
    f.append('%s/%s' % (case['focus']['type'], case['kind']))
    if 'err' in ir['with']:
        f.append('err:' + ir['with']['err'])
    r['evaluated'] += len(ir['ext']) + len(ir['per'])
    for d in PE.compare(case, ir, drv):
        r['disagreements'].append({'component': 'periodic/coarse', 'detail': d})
    # an option that is set must go through its mechanism: an asset declared periodic / on a coarser frequency whose set-up works
    # and has variables, but for which no call of __make_periodic__ / __extend_mapping_to_minor_grid__ was recorded, ignored it
    if 'err' not in ir['with'] and len(ir['with'].get('c', [])) > 0:
        if 'periodicity' in case['opt'] and not ir['per']:
            r['disagreements'].append({'component': 'periodic/coarse', 'detail': 'asset %s declared periodic (%s) but no call of __make_periodic__ was recorded during its set-up' % (
                case['focus']['type'], case['opt']['periodicity'])})
        if 'freq' in case['opt'] and not ir['ext']:
            f.append('freq-without-extension')
    if case.get('oracle') and 'err' not in ir['with']:
        v, feats = PE.oracle(case, ir)
        r['violations'] = v
        r['nontrivial'] = 'nontrivial' in feats
        f += [x for x in feats if x not in ('nontrivial', 'trivial')]
    else:
        r['nontrivial'] = bool(ir['ext'] or ir['per'])
        if case.get('oracle'):
            # the set-up raised: judged when the statement covers the case (periodic, equal periods, the fine problem exists)
            v, feats = PE.oracle_builds(case, ir['with'])
            r['violations'] = v
            f += feats
    # the data handed to the real code (in the form drawn for the case) must be what the case says also AFTER the set-up: the
    # comparison with the reference (which has its own copies) presupposes it
    for key in ('with', 'without_per'):
        ch = (ir.get(key) or {}).get('input_changed')
        if ch:
            r['disagreements'].append({'component': 'periodic/input-data', 'detail': 'set-up (%s the option) altered the caller\'s price data: %s' % (
                'with' if key == 'with' else 'without', ch)})
    return r
