"""C16 Scaled and structured assets."""
from ..comp import scaled as SC
from ..comp import scalebuild as SB

ID = 'C16'
THEOREMS = SC.THEOREMS + [
    ('EAO.Properties.C01', 'EAO.C01.nodal_balance_structured', 'a structured asset is a well-formed asset of the outer portfolio with dispatch rows at external nodes only; inner nodes balance by the inner rows'),
] + SB.THEOREMS_C16_BUILDERS
PARTIAL = [SC.PARTIAL[0].replace('the per-builder identification of "right-hand sides and capacity bounds times k" with "all capacity parameters times k" is checked by the fixed-scale oracle on the real code, not proved',
                                 'the per-builder identification of "right-hand sides and capacity bounds times k" with "all capacity parameters times k" is PROVED for the LP builders (SimpleContract, Contract with takes, MultiCommodity, Transport, ExtendedTransport for k > 0 - at k = 0 the equation fails, machine-checked counterexamples, and the zero point is characterised separately -, Storage in LP form for every k); for plants / CHP and the MIP storage options it fails (capacities in row coefficients: known finding F-16c) and is searched by the fixed-scale oracle')] + list(SC.PARTIAL[1:])
COMPONENTS = SC.COMPONENTS
RULE = ('scaled assets over captured real base problems (SimpleContract, Contract with takes, Storage 1|2 nodes, Transport, ExtendedTransport, MultiCommodity, Plant, OrderBook incl. orders outside the horizon) and structured assets over captured inner portfolios; the scaled asset with an own window (start / end / both; inside, straddling, covering, outside the horizon) in 45% of the scaled cases, over bases with and without a window of their own; oracles: fixed scale = base with all capacities * s/norm on the window of the base intersected with the own window of the scaled asset, minus fixed costs over the own window of the scaled asset, free scale >= every fixed scale and = the reported scale, structured vs flat portfolio (value, external dispatch); '
        'the objects of every case built in a way drawn from the seed - one shared Node object per name / a fresh Node(name) at every use (every asset, inner asset and the structured asset\'s own nodes) / the whole portfolio sent through to_json + load_from_json / inner portfolio and base made of deep copies - the correspondence and the oracles unchanged (nodes are identified by name), the references (flat portfolio, rescaled base) built with shared nodes; '
        'non-trivial = oracle compared a solved pair; distinct by case hash')
ASSUMPTIONS = ['values compared with tolerance 2e-6 relative']
EXPLANATION = 'theorems about the models of ScaledAsset / StructuredAsset on arbitrary base problems; correspondence on captured real base problems; equivalent-portfolio oracles on the real code; both on objects built with shared Node objects, with a Node object per use, re-loaded from JSON or deep-copied (the models know nodes by name only)'


def scenarios(seed, tier):
    yield from SC.scenarios(seed, tier)
    # builders with all capacity parameters times k against the built problem with right-hand sides and capacity bounds times k,
    # on the real code and on the model (comp/scalebuild.py)
    import random
    rnd = random.Random(seed * 104729 + 1616)
    for i in range(160 if tier == 'quick' else 1000):
        yield 'sb%d' % i, {'_stream': 'scalebuild', 'case': SB.gen_case(random.Random(rnd.getrandbits(48)))}


def run_case(case, drv):
    if isinstance(case, dict) and case.get('_stream') == 'scalebuild':
        r = SB.run_case(case['case'], drv)
        r.setdefault('evaluated', 1)
        r['features'] = ['stream:scalebuild'] + list(r.get('features', []))
        return r
    r = SC.run_case(case, drv)
    # the cost vector alone (costs_only, used for cost samples) is the cost vector of the full set-up - the scale variable's
    # fixed costs included
    try:
        import numpy as np
        from .. import scen, impl
        portf, tg, prices, nodes = SC.build_variant(case['scn'], case.get('build'))
        with impl.Quiet():
            op = portf.setup_optim_problem(prices, tg)
            c_only = portf.setup_optim_problem(prices, tg, costs_only=True)
        r['evaluated'] = r.get('evaluated', 1) + 1
        if len(c_only) != len(op.c) or not np.allclose(np.asarray(c_only, dtype=float), np.asarray(op.c, dtype=float), rtol=1e-12, atol=1e-12):
            j = next((k for k in range(min(len(c_only), len(op.c))) if abs(float(c_only[k]) - float(op.c[k])) > 1e-12 * max(1.0, abs(float(op.c[k])))), None)
            r['violations'].append({'oracle': 'costs_only', 'detail': 'costs_only vector (%d entries) differs from the cost vector of the full set-up (%d entries)%s' % (
                len(c_only), len(op.c), '' if j is None else ': entry %d is %.10g vs %.10g' % (j, float(c_only[j]), float(op.c[j]))), 'facts': {'kind': 'costs_only'}})
    except Exception as e:
        r.setdefault('features', []).append('costs-only-skip:' + type(e).__name__)
    return r
