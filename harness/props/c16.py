"""C16 Scaled and structured assets."""
from ..comp import scaled as SC

ID = 'C16'
THEOREMS = SC.THEOREMS + [
    ('EAO.Properties.C01', 'EAO.C01.nodal_balance_structured', 'a structured asset is a well-formed asset of the outer portfolio with dispatch rows at external nodes only; inner nodes balance by the inner rows'),
]
PARTIAL = SC.PARTIAL
COMPONENTS = SC.COMPONENTS
RULE = ('scaled assets over captured real base problems (SimpleContract, Contract with takes, Storage 1|2 nodes, Transport, ExtendedTransport, MultiCommodity, Plant, OrderBook incl. orders outside the horizon) and structured assets over captured inner portfolios; oracles: fixed scale = base with all capacities * s/norm minus fixed costs, free scale >= every fixed scale and = the reported scale, structured vs flat portfolio (value, external dispatch); '
        'non-trivial = oracle compared a solved pair; distinct by case hash')
ASSUMPTIONS = ['values compared with tolerance 2e-6 relative']
EXPLANATION = 'theorems about the models of ScaledAsset / StructuredAsset on arbitrary base problems; correspondence on captured real base problems; equivalent-portfolio oracles on the real code'


def scenarios(seed, tier):
    return SC.scenarios(seed, tier)


def run_case(case, drv):
    return SC.run_case(case, drv)
