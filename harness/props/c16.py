"""C16 Scaled and structured assets."""
from ..comp import scaled as SC
from ..comp import scalebuild as SB
from ..comp import c16gen as G16

ID = 'C16'
THEOREMS = SC.THEOREMS + [
    ('EAO.Properties.C01', 'EAO.C01.nodal_balance_structured', 'a structured asset is a well-formed asset of the outer portfolio with dispatch rows at external nodes only; inner nodes balance by the inner rows'),
] + SB.THEOREMS_C16_BUILDERS
from ..comp import structwinflat as SWF
THEOREMS = THEOREMS + SWF.THEOREMS_C16_WINDOW
PARTIAL = [SC.PARTIAL[0].replace('the per-builder identification of "right-hand sides and capacity bounds times k" with "all capacity parameters times k" is checked by the fixed-scale oracle on the real code, not proved',
                                 'the per-builder identification of "right-hand sides and capacity bounds times k" with "all capacity parameters times k" is PROVED for the LP builders (SimpleContract, Contract with takes, MultiCommodity, Transport, ExtendedTransport for k > 0 - at k = 0 the equation fails, machine-checked counterexamples, and the zero point is characterised separately -, Storage in LP form for every k); for plants / CHP and the MIP storage options it fails (capacities in row coefficients: known finding F-16c) and is searched by the fixed-scale oracle')] + list(SC.PARTIAL[1:])
COMPONENTS = SC.COMPONENTS
RULE = ('scaled assets over captured real base problems (SimpleContract, Contract with takes, Storage 1|2 nodes, Transport, ExtendedTransport, MultiCommodity, Plant, OrderBook incl. orders outside the horizon) and structured assets over captured inner portfolios; the scaled asset with an own window (start / end / both; inside, straddling, covering, outside the horizon) in 45% of the scaled cases, over bases with and without a window of their own; oracles: fixed scale = base with all capacities * s/norm on the window of the base intersected with the own window of the scaled asset, minus fixed costs over the own window of the scaled asset, free scale >= every fixed scale and = the reported scale, structured vs flat portfolio (value, external dispatch); '
        'the objects of every case built in a way drawn from the seed - one shared Node object per name / a fresh Node(name) at every use (every asset, inner asset and the structured asset\'s own nodes) / the whole portfolio sent through to_json + load_from_json / inner portfolio and base made of deep copies - the correspondence and the oracles unchanged (nodes are identified by name), the references (flat portfolio, rescaled base) built with shared nodes; '
        'stream freeobl (comp/c16gen.py): a FREE scale (min_scale < max_scale) over base assets with an OBLIGATION - contracts that must take (min_cap > 0) or must deliver (max_cap < 0), scalar / profile / interval capacities, min_take > 0 and max_take < 0 over the horizon, storages that have to end fuller or emptier than they start or have an inflow they cannot keep, transports and multi-commodity contracts with a forced flow, the same behind a line inside a structured asset - next to wide markets, with the degenerate cost settings: fix_costs exactly 0 (float, int), next to nothing, negative, positive, with own windows / wacc, min_scale 0 or positive; oracle: every scale of a scan of [min_scale, max_scale] (5-7 points, both end points) fixed = base with all capacities * s/norm less fixed costs, and the free optimum is no worse than the best of that scan taken on the rescaled BASE and equals the rescaled base at the reported scale, which lies in the range; '
        'stream tzwin (comp/c16gen.py): zone-aware grids (8 zones, with and without a daylight-saving switch inside); the window of the structured asset (of the scaled asset) and the own windows of the wrapped assets (of the base, of the assets inside a structured base) given as zone-AWARE dates written in DIFFERENT zones (UTC, the zone of the grid, zones up to +11 h / -8 h away, a half-hour offset; 12% of the cases all in one zone), the wrapped boundaries within 3 steps of the wrapper\'s, on and between grid points, so that order in time and order of the wall-clock readings differ; the flat reference (the rescaled base) carries the windows intersected by hand BY INSTANT (later start, earlier end as points in time, written in UTC); oracles unchanged: structured vs flat (optimal value, solutions transported both ways, problem vectors / rows / dispatch rows at the outer nodes), fixed and free scale; '
        'stream wrapargs (comp/c16gen.py): the keyword arguments the WRAPPER accepts next to its scale parameters (ScaledAsset takes start, end and wacc of Asset; not freq / profile) together with fixed costs that are there (positive, negative, float, int; 5% exactly 0), on horizons of three weeks to nine months in steps of half a day, 1, 2, 3 and 7 days (main time unit d or h): a wacc (3% - 50%) on the wrapper only / on the base only (the wrapper with wacc 0 as int or float, or without) / on both (the same, two different ones) / on every asset of the portfolio / on nobody; bases SimpleContract, Contract with takes, Storage 1|2 nodes, Transport, ExtendedTransport, MultiCommodity, Plant (LP), structured (the wacc on every wrapped asset), with and without own windows of wrapper and base; scale held fixed (40%) or free; oracles scaled_fixed / scaled_free as before, the reference computed from the scenario alone: the plain portfolio with the base at all capacities * s/norm (the base keeps its own wacc) less s * fix_costs * duration, the duration = sum of the lengths, as differences of instants in the main time unit, of the steps that begin inside the wrapper\'s window (nothing discounted, no grid object of the package); and the same through Portfolio.create_cost_samples (costs_only set-up on the same objects): the optimal point of the fixed-scale portfolio valued with the cost vector made for the same prices is worth that reference, and the entry of the scale variable is fix_costs * duration (also at scale 0); '
        'non-trivial = oracle compared a solved pair; distinct by case hash')
ASSUMPTIONS = ['values compared with tolerance 2e-6 relative',
               'free scale: the best over the allowed range is evaluated on a scan of 4-7 fixed scales including both end points plus the reported scale (the value is concave in the scale for LP bases, so the scan bounds the best from below and the reported scale attains it)',
               'stream wrapargs: the fixed costs of a scaled asset are s x cost rate x active duration as the statement says - a plain product, not a discounted cash flow, whatever wacc the wrapper, the base or other assets carry; the base asset\'s own cash flows are discounted with the base\'s wacc in the scaled asset as in the plain reference portfolio',
               'zone-aware window dates are compared as points in time; naive and zone-aware dates are not mixed within one wrapper (the package raises TypeError on the comparison)']
EXPLANATION = 'theorems about the models of ScaledAsset / StructuredAsset on arbitrary base problems; correspondence on captured real base problems; equivalent-portfolio oracles on the real code; both on objects built with shared Node objects, with a Node object per use, re-loaded from JSON or deep-copied (the models know nodes by name only); free scales over bases with obligations and degenerate fixed costs; windows as zone-aware dates of different zones against references intersected by instant; the wrapper\'s own inherited keyword arguments (wacc) with non-zero fixed costs on horizons of weeks to months against a reference computed from the scenario alone, the cost vectors for price samples included'


def scenarios(seed, tier):
    yield from SC.scenarios(seed, tier)
    # builders with all capacity parameters times k against the built problem with right-hand sides and capacity bounds times k,
    # on the real code and on the model (comp/scalebuild.py)
    import random
    rnd = random.Random(seed * 104729 + 1616)
    for i in range(160 if tier == 'quick' else 1000):
        yield 'sb%d' % i, {'_stream': 'scalebuild', 'case': SB.gen_case(random.Random(rnd.getrandbits(48)))}
    # free scale over base assets with obligations, degenerate cost settings (fix_costs exactly 0, tiny, negative): the optimum
    # against the best over a scan of the allowed range, end points included (comp/c16gen.py, oracles of comp/scaled.py)
    rnd = random.Random(seed * 104729 + 161616)
    for i in range(120 if tier == 'quick' else 800):
        yield 'fo%d' % i, G16.gen_case(random.Random(rnd.getrandbits(48)), 'freeobl')
    # windows of a wrapper and of what it wraps as zone-aware dates of different zones, on zone-aware grids: against the flat
    # portfolio (the rescaled base) with the windows intersected by instant
    for i in range(160 if tier == 'quick' else 1000):
        yield 'tz%d' % i, G16.gen_case(random.Random(rnd.getrandbits(48)), 'tzwin')
    # keyword arguments of the wrapper itself (wacc of the ScaledAsset; on the wrapper only / the base only / both / everything /
    # nobody) with fixed costs that are there, on horizons of weeks to months: against the plain portfolio with the rescaled base
    # less s * fix_costs * duration, the duration from the instants of the scenario; the cost vectors for price samples valued too
    rnd = random.Random(seed * 104729 + 16161616)
    for i in range(90 if tier == 'quick' else 600):
        yield 'wa%d' % i, G16.gen_case(random.Random(rnd.getrandbits(48)), 'wrapargs')
    # wrappers WITH windows against the flat portfolio with intersected windows, as EAO.C16W states it (comp/structwinflat.py)
    import random as _random
    _rsw = _random.Random(seed * 104729 + 1617)
    for i in range(80 if tier == 'quick' else 500):
        yield 'swf%d' % i, {'_stream': 'structwinflat', 'case': SWF.gen_case(_random.Random(_rsw.getrandbits(48)))}


def run_case(case, drv):
    if isinstance(case, dict) and case.get('_stream') == 'structwinflat':
        r = SWF.run_case(case['case'], drv)
        return {'evaluated': 1, 'nontrivial': True, 'features': ['stream:structwinflat'],
                'disagreements': [d if isinstance(d, dict) else {'component': 'wrapper windows vs flat', 'detail': d} for d in r['disagreements']],
                'violations': r['violations']}
    if isinstance(case, dict) and case.get('_stream') == 'scalebuild':
        r = SB.run_case(case['case'], drv)
        r.setdefault('evaluated', 1)
        r['features'] = ['stream:scalebuild'] + list(r.get('features', []))
        return r
    r = SC.run_case(case, drv)
    if case.get('stream'):
        r['features'] = list(r.get('features', [])) + G16.features(case, r)
    # the cost vector alone (costs_only, used for cost samples) is the cost vector of the full set-up - the scale variable's
    # fixed costs included
    try:
        import numpy as np
        from .. import scen, impl
        portf, tg, prices, nodes = SC.build_variant(case['scn'], case.get('build'))
        with impl.Quiet():
            op = portf.setup_optim_problem(prices, tg)
            c_only = portf.setup_optim_problem(prices, tg, costs_only=True)
        r['evaluated'] = r.get('evaluated', 1) + 1
        if len(c_only) != len(op.c) or not np.allclose(np.asarray(c_only, dtype=float), np.asarray(op.c, dtype=float), rtol=1e-12, atol=1e-12):
            j = next((k for k in range(min(len(c_only), len(op.c))) if abs(float(c_only[k]) - float(op.c[k])) > 1e-12 * max(1.0, abs(float(op.c[k])))), None)
            r['violations'].append({'oracle': 'costs_only', 'detail': 'costs_only vector (%d entries) differs from the cost vector of the full set-up (%d entries)%s' % (
                len(c_only), len(op.c), '' if j is None else ': entry %d is %.10g vs %.10g' % (j, float(c_only[j]), float(op.c[j]))), 'facts': {'kind': 'costs_only'}})
    except Exception as e:
        r.setdefault('features', []).append('costs-only-skip:' + type(e).__name__)
    return r
