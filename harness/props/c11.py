"""C11 JSON round trip."""
from ..comp import serial as S

ID = 'C11'
THEOREMS = S.THEOREMS
COMPONENTS = ['schema table REGENERATED from /repo/eaopack/*.py by harness/schema_gen.py on every run (translator self-check: stored keys and signatures of real objects vs the table)', 'value codec on real datetimes/arrays/indices']
RULE = ('every (de)serialisable class x parameter forms (scalars, interval dicts with naive/aware datetimes, numpy arrays, DatetimeIndex, price keys; all options) before and after a set-up call: save, load, re-save, compare problems for 2 grids/prices exactly; portfolios with naive and zone-aware own grids; '
        'non-trivial = object with at least one non-default structured parameter that round-trips to an identical problem; distinct by case hash')
ASSUMPTIONS = ['strftime/strptime modelled as a lawful codec on whole seconds (tested on the real code by the codec oracle)']
MODELLED = ['float repr round trip of json; pandas zone handling']
EXPLANATION = 'the class schema is regenerated from source and RoundTripOK re-proved by decide +kernel over the regenerated table on every run; roundtrip_of_schema lifts it to all object trees; oracle on the real code'
TECHNIQUE = 'Lean 4 theorems over a schema model REGENERATED from the source by a translator (decide +kernel over the finite table, lifted by structural induction) + round-trip oracle on the real code'
NEEDS_DRIVER = False


def pre_build():
    S.regenerate('/repo')
    return []


def scenarios(seed, tier):
    return S.scenarios(seed, tier)


def run_case(case, drv):
    return S.run_case(case, drv)
