"""C11 JSON round trip."""
from ..comp import serial as S

ID = 'C11'
THEOREMS = S.THEOREMS
from ..comp import params as _PA
THEOREMS = THEOREMS + _PA.THEOREMS_C11_PARAMS
COMPONENTS = ['schema table REGENERATED from /repo/eaopack/*.py by harness/schema_gen.py on every run (translator self-check: stored keys and signatures of real objects vs the table)', 'value codec on real datetimes/arrays/indices']
RULE = ('every (de)serialisable class x parameter forms (scalars, interval dicts with naive/aware datetimes, numpy arrays, DatetimeIndex, price keys; all options) before and after a set-up call: save, load, re-save, compare problems for 2 grids/prices exactly; portfolios with naive and zone-aware own grids; '
        'stream dst: portfolio-owned grids on zones with daylight saving time (incl. southern hemisphere and a 30 min shift) whose start and/or end are zone-aware time stamps (Timestamp, datetime, zoneinfo datetime, fixed UTC offset) at the switches - first and second occurrence of the repeated span, its borders, the neighbours of the gap - with and without the timezone keyword, steps 15min/30min/h/2h/d; on grids given by zoneinfo datetimes the asset dates are zoneinfo datetimes too (known finding F-11f: violations of that cause carry the fact kind=zoneinfo_dates); the grid oracle compares the time points as instants AND as local times with UTC offset, the zone of the points AND the tz attribute, start/end, T, dt, Dt, unit, freq; '
        'stream sweep: every constructor parameter of every class of the regenerated schema table (underscore parameters included; CHP classes with _no_heat on one node and on power+fuel nodes; nodes with commodity and unit) occurs with another value than its default - asserted by the case `coverage` against the schema table and inspect.signature: a parameter never exercised is written to the evidence as feature param-gap:<Class>.<param> (param-exempt: with the reason in harness/comp/serial.py EXEMPT) and printed as COVERAGE-GAP, it is not a violation; feature param:<Class>.<param> counts the cases in which the object with that parameter was built, saved and loaded; '
        'stream dates (harness/comp/datecont.py): date CONTAINERS of every kind inside interval data (min_take / max_take, capacity and cost dictionaries), orders of order books and asset windows - lists and numpy OBJECT arrays of zone-aware Timestamps / datetimes (DatetimeIndex.to_numpy()), zone-aware DatetimeIndex without and WITH a frequency (date ranges with calendar frequencies D, 2D, W, MS and 12h: local midnights, not equidistant as instants over a daylight-saving switch), datetime64 arrays and naive containers, start and end in different containers, dates in the zone of the grid or in another zone (same instants), also inside scaled and structured assets - on grids in zones that mostly have an offset to UTC (northern / southern hemisphere, 30 min offset), placed around the spring / autumn switch or anywhere in the year, second grid in the same or another zone; decided by the oracles of the statement: what was saved can be loaded (c11-load), re-saving reproduces the JSON (c11-resave), the PROBLEM (A, b, c, bounds, mapping) of the loaded object equals that of the original exactly on both grids and on the own grid (c11-problem, c11-grid, c11-optimise); the value codec stream also draws object arrays of time stamps and zone-aware indices with calendar frequencies (compared by instants AND zones); '
        'non-trivial = object with at least one non-default structured parameter that round-trips to an identical problem; distinct by case hash')
ASSUMPTIONS = ['strftime/strptime modelled as a lawful codec on whole seconds (tested on the real code by the codec oracle)']
MODELLED = ['float repr round trip of json; pandas zone handling']
PARTIAL = ['parameter `profile` (all asset classes): not exercised - eaopack accepts only a pandas Series together with `freq`, raises NotImplementedError in every set-up of such an asset and TypeError when saving it',
           'Unit.factor: only the default 1 is accepted by the constructor',
           'Timegrid.ref_timegrid: out of scope - a Timegrid with ref_timegrid is an internal restricted view of another grid, not something a user sets as a portfolio\'s grid (the serialiser does not store the reference grid); not generated',
           'LinkedAsset: parameters are generated with non-default values, but the class cannot be loaded (known finding F-11d), so no round trip of them is observed']
EXPLANATION = 'the class schema is regenerated from source and RoundTripOK re-proved by decide +kernel over the regenerated table on every run; roundtrip_of_schema lifts it to all object trees; oracle on the real code'
TECHNIQUE = 'Lean 4 theorems over a schema model REGENERATED from the source by a translator (decide +kernel over the finite table, lifted by structural induction) + round-trip oracle on the real code'
NEEDS_DRIVER = False


def pre_build():
    import os
    S.regenerate(os.environ.get('EAO_REPO', '/repo'))      # (EAO_REPO: development override, see core.py; the registered commands check /repo)
    return []


def scenarios(seed, tier):
    yield from S.scenarios(seed, tier)
    # io.get_params_tree / get_param / set_param against their model (comp/params.py)
    from ..comp import params as PA
    for cid, c in PA.scenarios(seed, tier):
        yield 'pa_' + str(cid), {'_stream': 'params', 'case': c}
    # portfolios through run_from_json (string / file / grid stored in the JSON) and re-created by set_param: comp/entry.py
    from ..comp import entry as EN
    yield from EN.stream(seed, 60 if tier == 'quick' else 400, ('json', 'param'), tmax=10 if tier == 'quick' else 16)


def run_case(case, drv):
    if isinstance(case, dict) and case.get('_stream') == 'params':
        from ..comp import params as PA
        r = PA.run_case(case['case'], drv)
        r['features'] = ['stream:params'] + list(r.get('features', []))
        return r
    if isinstance(case, dict) and case.get('_stream') == 'entry':
        from ..comp import entry as EN
        return EN.run_stream_case(case, ('entry_point',))
    return S.run_case(case, drv)
