"""Seeded scenario generators.  Every random choice derives from one random.Random instance.

Numbers are small dyadic rationals (k/8) so that, with wacc = 0 and step lengths that are powers
of two of the main time unit, every intermediate value of the implementation is exactly
representable and model and implementation can be compared for equality.
"""
import random
import pandas as pd

H = pd.Timedelta(hours=1)

GRIDS = [
    # (freq, unit, step as Timedelta)
    ('h', 'h', pd.Timedelta(hours=1)),
    ('2h', 'h', pd.Timedelta(hours=2)),
    ('4h', 'h', pd.Timedelta(hours=4)),
    ('30min', 'h', pd.Timedelta(minutes=30)),
    ('15min', 'h', pd.Timedelta(minutes=15)),
    ('h', 'd', pd.Timedelta(hours=1)),
    ('h', 'min', pd.Timedelta(hours=1)),
    ('d', 'd', pd.Timedelta(days=1)),
    ('d', 'h', pd.Timedelta(days=1)),
    ('6h', 'd', pd.Timedelta(hours=6)),
]


def q8(rnd, lo, hi):
    """random multiple of 1/8 in [lo, hi]"""
    return rnd.randint(int(lo * 8), int(hi * 8)) / 8.0


def iso(ts):
    return pd.Timestamp(ts).strftime('%Y-%m-%dT%H:%M:%S')


def dtv(ts):
    return {'$dt': iso(ts)}


def gen_grid(rnd, tmin=2, tmax=16, tz_prob=0.2, grids=None):
    freq, unit, step = rnd.choice(grids or GRIDS)
    T = rnd.randint(tmin, tmax)
    tz = None
    start = pd.Timestamp('2021-01-01') + rnd.choice([0, 0, 6, 24, 30]) * H
    if rnd.random() < tz_prob:
        tz = rnd.choice(['CET', 'Europe/Berlin', 'US/Eastern', 'UTC'])
        if rnd.random() < 0.5 and step <= pd.Timedelta(hours=4):
            # cross a daylight saving switch
            start = pd.Timestamp(rnd.choice(['2021-03-27 20:00', '2021-10-30 20:00']))
    if freq == 'd':
        start = start.normalize()
    end = start + T * step
    if tz is not None:
        for _ in range(6):
            try:
                pd.Timestamp(start).tz_localize(tz)
                pd.Timestamp(end).tz_localize(tz)
                break
            except Exception:
                end = end + step
    g = {'start': iso(start), 'end': iso(end), 'freq': freq, 'unit': unit, 'tz': tz,
         'T_nominal': T, 'step_s': int(step.total_seconds())}
    fix_grid(g)
    return g


def fix_grid(g):
    """attach the real grid points (naive local time) so that generated dates are legitimate local times"""
    pts = pd.date_range(pd.Timestamp(g['start'], tz=g['tz']), pd.Timestamp(g['end'], tz=g['tz']), freq=g['freq'])
    g['T_nominal'] = len(pts) - 1
    g['_pts'] = [iso(p.tz_localize(None)) for p in pts]


def ok_local(ts, g):
    if g.get('tz') is None:
        return True
    try:
        pd.Timestamp(ts).tz_localize(g['tz'])
        return True
    except Exception:
        return False


def P(g, i):
    """i-th grid point (i may lie outside 0..T: extrapolated by the nominal step), as naive local Timestamp or None"""
    pts = g['_pts']
    T = len(pts) - 1
    step = pd.Timedelta(seconds=g['step_s'])
    if 0 <= i <= T:
        return pd.Timestamp(pts[int(i)])
    t = pd.Timestamp(pts[0]) + i * step if i < 0 else pd.Timestamp(pts[-1]) + (i - T) * step
    return t


def window(rnd, g, kinds=None):
    """(kind, start, end) of an asset window from a placement table relative to the horizon; None = not given"""
    T = g['T_nominal']
    step = pd.Timedelta(seconds=g['step_s'])
    kinds = kinds or ['none', 'none', 'none', 'inside', 'inside', 'start_only', 'end_only', 'straddle_start',
                      'straddle_end', 'covering', 'equal', 'before', 'after', 'offgrid']
    k = rnd.choice(kinds)
    a = rnd.randint(0, max(0, T - 1))
    b = rnd.randint(a + 1, T) if a < T else T
    if k == 'none':
        s, e = None, None
    elif k == 'inside':
        s, e = P(g, a), P(g, b)
    elif k == 'start_only':
        s, e = P(g, a), None
    elif k == 'end_only':
        s, e = None, P(g, b)
    elif k == 'straddle_start':
        s, e = P(g, -3), P(g, b)
    elif k == 'straddle_end':
        s, e = P(g, a), P(g, T + 2)
    elif k == 'covering':
        s, e = P(g, -2), P(g, T + 5)
    elif k == 'equal':
        s, e = P(g, 0), P(g, T)
    elif k == 'before':
        s, e = P(g, -5), P(g, -1)
    elif k == 'after':
        s, e = P(g, T + 1), P(g, T + 4)
    elif k == 'offgrid':  # boundaries between grid points
        s = P(g, a) + step / 2
        e = P(g, b) - step / 4 if b > a + 1 else P(g, b) + step / 4
    else:
        raise ValueError(k)
    if (s is not None and not ok_local(s, g)) or (e is not None and not ok_local(e, g)):
        return 'none', None, None
    return k, s, e


def put_window(args, w):
    k, s, e = w
    if s is not None:
        args['start'] = dtv(s)
    if e is not None:
        args['end'] = dtv(e)
    return k


def interval_dict(rnd, g, lo, hi, with_end=None, full_cover=True):
    """interval data {start, end, values} covering the horizon (unless full_cover is False)"""
    T = g['T_nominal']
    k = rnd.randint(1, min(3, T))
    cuts = sorted(rnd.sample(range(1, T), k - 1)) if T > 1 and k > 1 else []
    idx = [-2] + cuts
    starts = [P(g, i) for i in idx]
    ends = starts[1:] + [P(g, T + 3)]
    if not full_cover and rnd.random() < 0.5:
        ends[-1] = P(g, max(idx[-1] + 1, T - 1))
    vals = [q8(rnd, lo, hi) for _ in starts]
    if not all(ok_local(x, g) for x in starts + ends):
        starts, ends, vals = [P(g, 0) - pd.Timedelta(days=3)], [P(g, T) + pd.Timedelta(days=3)], vals[:1]
    d = {'start': [dtv(x) for x in starts], 'values': vals}
    if with_end is None:
        with_end = rnd.random() < 0.7
    if not with_end and len(starts) > 1:
        # implicit end of the last interval: start + 2 * (last gap); keep only if it covers the horizon
        impl_end = starts[-1] + 2 * (starts[-1] - starts[-2])
        if full_cover and impl_end < P(g, T):
            with_end = True
    if with_end:
        d['end'] = [dtv(x) for x in ends]
    return d


def cap_param(rnd, g, lo, hi, prices, T, form=None):
    """a capacity-like parameter in one of the accepted forms: scalar, price key, interval dict"""
    form = form or rnd.choice(['scalar', 'scalar', 'scalar', 'key', 'dict'])
    if form == 'scalar':
        return q8(rnd, lo, hi)
    if form == 'key':
        key = 'cap%d' % len(prices)
        prices[key] = [q8(rnd, lo, hi) for _ in range(T)]
        return key
    return interval_dict(rnd, g, lo, hi)


def price_key(rnd, prices, T, lo=-4, hi=20):
    if prices and rnd.random() < 0.3:
        ks = [k for k in prices if k.startswith('p')]
        if ks:
            return rnd.choice(ks)
    key = 'p%d' % len(prices)
    prices[key] = [q8(rnd, lo, hi) for _ in range(T)]
    return key


def real_T(g):
    import eaopack as eao
    from . import scen
    return scen.make_grid(g).T


def gen_simple_contract(rnd, g, prices, T, name, node, allow_opts=True):
    args = {}
    lo = q8(rnd, -6, 0)
    hi = q8(rnd, 0, 6)
    mode = rnd.choice(['both', 'both', 'buy', 'sell', 'fixed'])
    if mode == 'buy':
        lo, hi = 0.0, hi + 0.5
    elif mode == 'sell':
        lo, hi = lo - 0.5, 0.0
    elif mode == 'fixed':
        lo = hi = q8(rnd, -2, 2)
    form = rnd.choice(['scalar', 'scalar', 'key', 'dict']) if allow_opts else 'scalar'
    if form == 'scalar':
        args['min_cap'], args['max_cap'] = lo, hi
    elif form == 'key':
        k1, k2 = 'cap%d' % len(prices), 'cap%d' % (len(prices) + 1)
        prices[k1] = [min(lo, 0) - q8(rnd, 0, 2) if mode != 'buy' else 0.0 for _ in range(T)]
        prices[k2] = [max(hi, 0) + q8(rnd, 0, 2) if mode != 'sell' else 0.0 for _ in range(T)]
        args['min_cap'], args['max_cap'] = k1, k2
    else:
        args['min_cap'] = lo
        args['max_cap'] = interval_dict(rnd, g, max(hi, lo), max(hi, lo) + 3)
    if rnd.random() < 0.85:
        args['price'] = price_key(rnd, prices, T)
    r = rnd.random()
    if r < 0.3:
        args['extra_costs'] = q8(rnd, 0.125, 2)
    elif r < 0.4 and allow_opts:
        args['extra_costs'] = interval_dict(rnd, g, 0, 2, full_cover=False)
    elif r < 0.45 and allow_opts:
        k = 'ec%d' % len(prices)
        prices[k] = [q8(rnd, 0, 2) for _ in range(T)]
        args['extra_costs'] = k
    return {'type': 'SimpleContract', 'name': name, 'nodes': [node], 'args': args}


def take_dict(rnd, g, lo, hi, n=None):
    T = g['T_nominal']
    n = n or rnd.randint(1, 2)
    ss, ee, vv = [], [], []
    for _ in range(n):
        k = rnd.choice(['inside', 'inside', 'straddle_start', 'straddle_end', 'outside', 'covering'])
        a = rnd.randint(0, max(0, T - 1))
        b = rnd.randint(a + 1, T)
        if k == 'inside':
            s, e = P(g, a), P(g, b)
        elif k == 'straddle_start':
            s, e = P(g, -4), P(g, b)
        elif k == 'straddle_end':
            s, e = P(g, a), P(g, T + 4)
        elif k == 'covering':
            s, e = P(g, -2), P(g, T + 2)
        else:
            s, e = P(g, T + 2), P(g, T + 6)
        if not (ok_local(s, g) and ok_local(e, g)):
            s, e = P(g, 0), P(g, T)
        ss.append(dtv(s))
        ee.append(dtv(e))
        vv.append(q8(rnd, lo, hi))
    return {'start': ss, 'end': ee, 'values': vv}


def gen_contract(rnd, g, prices, T, name, node):
    a = gen_simple_contract(rnd, g, prices, T, name, node)
    a['type'] = 'Contract'
    # keep takes loose enough to be feasible: max_take >= 0 >= min_take region unless caps force otherwise
    if rnd.random() < 0.7:
        a['args']['max_take'] = take_dict(rnd, g, 2, 30)
    if rnd.random() < 0.4:
        a['args']['min_take'] = take_dict(rnd, g, -30, -2)
    return a


def gen_transport(rnd, g, prices, T, name, n1, n2, ext=False):
    args = {}
    if rnd.random() < 0.8:
        args['min_cap'], args['max_cap'] = 0.0, q8(rnd, 0.5, 6)
    else:
        args['min_cap'], args['max_cap'] = -q8(rnd, 0.5, 6), 0.0
    if rnd.random() < 0.6:
        args['efficiency'] = rnd.choice([0.5, 0.75, 0.875, 0.25, 1.0, 1.5])
    if rnd.random() < 0.5:
        args['costs_const'] = q8(rnd, 0, 2)
    if rnd.random() < 0.3:
        k = 'tc%d' % len(prices)
        prices[k] = [q8(rnd, 0, 2) for _ in range(T)]
        args['costs_time_series'] = k
    t = 'Transport'
    if ext:
        t = 'ExtendedTransport'
        if rnd.random() < 0.8:
            args['max_take'] = take_dict(rnd, g, 1, 20) if args['max_cap'] > 0 else take_dict(rnd, g, 0, 0)
        if rnd.random() < 0.3 and args['max_cap'] > 0:
            args['min_take'] = take_dict(rnd, g, 0, 0.5, n=1)
    return {'type': t, 'name': name, 'nodes': [n1, n2], 'args': args}


def gen_storage(rnd, g, prices, T, name, nodes, allow_mip=True, allow_blocks=True):
    size = q8(rnd, 1, 8)
    args = {'size': size, 'cap_in': q8(rnd, 0.25, 4), 'cap_out': q8(rnd, 0.25, 4)}
    r = rnd.random()
    if r < 0.4:
        lvl = q8(rnd, 0, size)
        args['start_level'] = lvl
        args['end_level'] = lvl
    elif r < 0.7:
        args['start_level'] = q8(rnd, 0, size)
        args['end_level'] = q8(rnd, 0, size)
    if rnd.random() < 0.4:
        args['eff_in'] = rnd.choice([0.5, 0.75, 0.875, 0.25])
    if rnd.random() < 0.25:
        args['cost_in'] = q8(rnd, 0, 1)
    if rnd.random() < 0.25:
        args['cost_out'] = q8(rnd, 0, 1)
    if rnd.random() < 0.25:
        args['cost_store'] = q8(rnd, 0, 0.5)
    if rnd.random() < 0.25:
        args['inflow'] = q8(rnd, 0, 0.5)
    if rnd.random() < 0.3:
        args['price'] = price_key(rnd, prices, T)
    if allow_mip and rnd.random() < 0.12:
        args['no_simult_in_out'] = True
        if 'eff_in' not in args and 'cost_in' not in args:
            args['eff_in'] = 0.5
    if allow_mip and rnd.random() < 0.08:
        args['max_store_duration'] = float(rnd.randint(1, 4))
    if allow_blocks and rnd.random() < 0.2 and g['step_s'] <= 4 * 3600:
        args['block_size'] = rnd.choice(['4h', '8h', 'd', '6h'])
    return {'type': 'Storage', 'name': name, 'nodes': nodes, 'args': args}


def gen_multi(rnd, g, prices, T, name, nodes):
    a = gen_contract(rnd, g, prices, T, name, nodes[0]) if rnd.random() < 0.5 else gen_simple_contract(rnd, g, prices, T, name, nodes[0])
    a['type'] = 'MultiCommodityContract'
    a['nodes'] = nodes
    a['args']['factors_commodities'] = [rnd.choice([1.0, 0.5, -1.0, 2.0, 0.25, -0.5]) for _ in nodes]
    return a


def gen_orderbook(rnd, g, prices, T, name, node, allow_mip=True):
    step = pd.Timedelta(seconds=g['step_s'])
    T = g['T_nominal']
    n = rnd.randint(1, 5)
    ss, ee, cc, pp = [], [], [], []
    for _ in range(n):
        k = rnd.choice(['inside', 'inside', 'inside', 'straddle_start', 'straddle_end', 'outside_after', 'outside_before', 'offgrid'])
        a = rnd.randint(0, max(0, T - 1))
        b = rnd.randint(a + 1, T)
        if k == 'inside':
            s, e = P(g, a), P(g, b)
        elif k == 'straddle_start':
            s, e = P(g, -3), P(g, b)
        elif k == 'straddle_end':
            s, e = P(g, a), P(g, T + 3)
        elif k == 'outside_after':
            s, e = P(g, T + 1), P(g, T + 4)
        elif k == 'outside_before':
            s, e = P(g, -6), P(g, -2)
        else:
            s, e = P(g, a) + step / 2, P(g, b) + step / 2
        if not (ok_local(s, g) and ok_local(e, g)):
            s, e = P(g, 0), P(g, T)
        ss.append(dtv(s))
        ee.append(dtv(e))
        cc.append(rnd.choice([-1, 1]) * q8(rnd, 0.25, 4))
        pp.append(q8(rnd, -2, 15))
    args = {'orders': {'start': ss, 'end': ee, 'capa': cc, 'price': pp}}
    if allow_mip and rnd.random() < 0.25:
        args['full_exec'] = True
    return {'type': 'OrderBook', 'name': name, 'nodes': [node], 'args': args}


def gen_plant(rnd, g, prices, T, name, nodes, chp=False, allow_mip=True):
    """Plant (1-2 nodes: power[, fuel]) or CHPAsset (2-3 nodes: power, heat[, fuel]); no ramp profiles"""
    args = {'max_cap': q8(rnd, 2, 8), 'price': price_key(rnd, prices, T)}
    if allow_mip:
        if rnd.random() < 0.6:
            args['min_cap'] = q8(rnd, 0.5, 2)
        if rnd.random() < 0.4:
            args['min_runtime'] = float(rnd.randint(2, 4))
        if rnd.random() < 0.3:
            args['min_downtime'] = float(rnd.randint(2, 3))
        r = rnd.random()
        if r < 0.3:
            args['time_already_running'] = float(rnd.randint(1, 3))
        elif r < 0.6 or args.get('min_downtime', 0) > 1:
            args['time_already_off'] = float(rnd.randint(1, 3))
        if rnd.random() < 0.4:
            args['start_costs'] = q8(rnd, 0.5, 4)
        if rnd.random() < 0.3:
            args['running_costs'] = q8(rnd, 0.125, 1)
    if rnd.random() < 0.4:
        args['ramp'] = q8(rnd, 1, 4)
        if rnd.random() < 0.5:
            args['last_dispatch'] = q8(rnd, 0, 2)
    if rnd.random() < 0.3:
        args['extra_costs'] = q8(rnd, 0.125, 1)
    nfuel = (len(nodes) == 3) if chp else (len(nodes) == 2)
    if nfuel:
        if rnd.random() < 0.7:
            args['fuel_efficiency'] = rnd.choice([0.5, 0.25, 0.8, 1.0])
        if allow_mip and rnd.random() < 0.4:
            args['consumption_if_on'] = q8(rnd, 0.125, 1)
        if allow_mip and rnd.random() < 0.3:
            args['start_fuel'] = q8(rnd, 0.5, 2)
    if chp:
        if rnd.random() < 0.6:
            args['conversion_factor_power_heat'] = rnd.choice([0.5, 0.25, 1.0, 2.0])
        if rnd.random() < 0.6:
            args['max_share_heat'] = rnd.choice([0.5, 1.0, 2.0, 0.25])
    t = 'CHPAsset' if chp else 'Plant'
    if chp and allow_mip and rnd.random() < 0.3:
        # the derived class charging costs for running below a threshold (one more boolean per step)
        t = 'CHPAsset_with_min_load_costs'
        args['min_load_threshhold'] = q8(rnd, 0.5, 3)
        args['min_load_costs'] = q8(rnd, 0.5, 3)
    return {'type': t, 'name': name, 'nodes': nodes, 'args': args}


NAMES_ADV = ['1', '11', 'A', 'AA', 'a b', '0', 'x_internal_y', 'n (m)', '10', '01', 'disp', 'nan']


def gen_portfolio(rnd, kinds=None, tmax=14, tz_prob=0.15, allow_mip=True, max_assets=5, nodes_max=3,
                  allow_freq=True, allow_periodic=True, allow_wacc=True, grids=None, market_prob=0.95,
                  allow_struct=True, adv_names=False, allow_blocks=True, tmin=2):
    """a random portfolio scenario; `kinds` restricts the asset kinds drawn"""
    g = gen_grid(rnd, tmin=min(tmin, tmax), tmax=tmax, tz_prob=tz_prob, grids=grids)
    from . import scen
    tg = scen.make_grid(g)
    T = tg.T
    prices = {}
    nn = rnd.randint(1, nodes_max)
    node_names = ['N%d' % i for i in range(1, nn + 1)]
    if adv_names:
        node_names = rnd.sample(NAMES_ADV, nn)
    assets = []
    names_pool = list(NAMES_ADV) if adv_names else []

    def newname(prefix):
        if adv_names and names_pool:
            n = rnd.choice(names_pool)
            names_pool.remove(n)
            return n
        return '%s%d' % (prefix, len(assets) + 1)
    # markets
    for n in node_names:
        if rnd.random() < market_prob:
            a = {'type': 'SimpleContract', 'name': newname('mkt'), 'nodes': [n],
                 'args': {'min_cap': -40.0, 'max_cap': 40.0, 'price': price_key(rnd, prices, T)}}
            if rnd.random() < 0.3:
                a['args']['extra_costs'] = q8(rnd, 0.125, 1)
            assets.append(a)
    kinds = kinds or ['simple', 'contract', 'transport', 'ext_transport', 'storage', 'storage2', 'multi', 'orderbook',
                      'scaled', 'structured', 'plant', 'chp']
    k = rnd.randint(1, max_assets)
    for _ in range(k):
        kind = rnd.choice(kinds)
        node = rnd.choice(node_names)
        two = rnd.sample(node_names, 2) if nn >= 2 else None
        a = None
        if kind == 'simple':
            a = gen_simple_contract(rnd, g, prices, T, newname('sc'), node)
        elif kind == 'contract':
            a = gen_contract(rnd, g, prices, T, newname('ct'), node)
        elif kind == 'transport' and two:
            a = gen_transport(rnd, g, prices, T, newname('tr'), two[0], two[1])
        elif kind == 'ext_transport' and two:
            a = gen_transport(rnd, g, prices, T, newname('xt'), two[0], two[1], ext=True)
        elif kind == 'multi_nt' and two:
            a = gen_simple_contract(rnd, g, prices, T, newname('mc'), two[0])
            a['type'] = 'MultiCommodityContract'
            a['nodes'] = two
            a['args']['factors_commodities'] = [rnd.choice([1.0, 0.5, -1.0, 2.0]) for _ in two]
        elif kind == 'plant_lp':
            a = gen_plant(rnd, g, prices, T, newname('pl'), [node], chp=False, allow_mip=False)
            a['args'].pop('ramp', None)
            a['args'].pop('last_dispatch', None)
        elif kind == 'storage_se':
            a = gen_storage(rnd, g, prices, T, newname('st'), [node], False, False)
            lvl = q8(rnd, 0, a['args']['size'])
            a['args']['start_level'] = lvl
            a['args']['end_level'] = lvl
            a['args'].pop('inflow', None)
        elif kind == 'storage':
            a = gen_storage(rnd, g, prices, T, newname('st'), [node], allow_mip, allow_blocks)
        elif kind == 'storage2' and two:
            a = gen_storage(rnd, g, prices, T, newname('st'), two, allow_mip, allow_blocks)
        elif kind == 'multi' and two:
            a = gen_multi(rnd, g, prices, T, newname('mc'), two)
        elif kind == 'orderbook':
            a = gen_orderbook(rnd, g, prices, T, newname('ob'), node, allow_mip)
        elif kind == 'plant':
            nodes = [node] if (not two or rnd.random() < 0.5) else two
            a = gen_plant(rnd, g, prices, T, newname('pl'), nodes, chp=False, allow_mip=allow_mip)
        elif kind == 'chp' and two:
            nodes = two if (nn < 3 or rnd.random() < 0.5) else rnd.sample(node_names, 3)
            a = gen_plant(rnd, g, prices, T, newname('chp'), nodes, chp=True, allow_mip=allow_mip)
        elif kind == 'scaled':
            bk = rnd.choice(['simple', 'storage', 'transport', 'contract'])
            nm = newname('sca')
            if bk == 'simple':
                base = gen_simple_contract(rnd, g, prices, T, nm + '_b', node)
            elif bk == 'contract':
                base = gen_contract(rnd, g, prices, T, nm + '_b', node)
            elif bk == 'storage':
                base = gen_storage(rnd, g, prices, T, nm + '_b', [node], False, False)
            elif two:
                base = gen_transport(rnd, g, prices, T, nm + '_b', two[0], two[1])
            else:
                base = gen_simple_contract(rnd, g, prices, T, nm + '_b', node)
            sargs = {'min_scale': rnd.choice([0.0, 0.0, 0.5]), 'max_scale': rnd.choice([1.0, 2.0, 4.0]),
                     'norm_scale': rnd.choice([1.0, 2.0, 0.5]), 'fix_costs': q8(rnd, 0, 1)}
            a = {'type': 'ScaledAsset', 'name': nm, 'base': base, 'args': sargs}
        elif kind == 'structured' and allow_struct:
            nm = newname('sa')
            inner_nodes = [nm + '_i1']
            ext = node
            inner = [gen_transport(rnd, g, prices, T, nm + '_tr', inner_nodes[0], ext)]
            inner[0]['args'].pop('costs_time_series', None)
            ik = rnd.choice(['simple', 'storage', 'contract'])
            if ik == 'simple':
                inner.append(gen_simple_contract(rnd, g, prices, T, nm + '_c', inner_nodes[0]))
            elif ik == 'contract':
                inner.append(gen_contract(rnd, g, prices, T, nm + '_c', inner_nodes[0]))
            else:
                inner.append(gen_storage(rnd, g, prices, T, nm + '_s', [inner_nodes[0]], False, False))
            if rnd.random() < 0.4:
                inner.append(gen_simple_contract(rnd, g, prices, T, nm + '_d', ext))
            for ia in inner:   # own windows of wrapped assets
                if rnd.random() < 0.35:
                    put_window(ia['args'], window(rnd, g, kinds=['inside', 'start_only', 'end_only', 'straddle_end', 'straddle_start', 'covering']))
            a = {'type': 'StructuredAsset', 'name': nm, 'nodes': [ext], 'inner': inner, 'args': {}}
            node_names_extra = inner_nodes
            for x in node_names_extra:
                if x not in node_names:
                    pass
            a['inner_nodes'] = inner_nodes
        if a is None:
            continue
        # generic options
        tgt = a['args'] if a['type'] != 'ScaledAsset' else a['base']['args']
        if a['type'] not in ('OrderBook',):
            if rnd.random() < 0.45:
                put_window(a['args'] if a['type'] != 'ScaledAsset' else a['base']['args'], window(rnd, g))
            if allow_wacc and rnd.random() < 0.2:
                w = rnd.choice([0.05, 0.1, 0.5])
                a['args']['wacc'] = w
                if a['type'] == 'ScaledAsset':
                    a['base']['args']['wacc'] = w
        base_t = a['type'] if a['type'] != 'ScaledAsset' else a['base']['type']
        if allow_freq and base_t in ('SimpleContract', 'Contract', 'Transport', 'Storage', 'MultiCommodityContract', 'ExtendedTransport') \
                and rnd.random() < 0.15 and 'block_size' not in tgt and 'max_store_duration' not in tgt:
            st = pd.Timedelta(seconds=g['step_s'])
            mult = rnd.choice([2, 2, 3, 4])
            cf = st * mult
            # whole window must be a multiple of the coarse step and cuts anchored at asset start: use horizon-aligned window
            if T % mult == 0 and 'start' not in tgt and 'end' not in tgt:
                tot = int(cf.total_seconds())
                tgt['freq'] = ('%dmin' % (tot // 60)) if tot % 3600 else ('%dh' % (tot // 3600))
        if allow_periodic and base_t in ('SimpleContract', 'Contract', 'Transport', 'Storage') and a['type'] != 'ScaledAsset' \
                and rnd.random() < 0.1 and 'freq' not in tgt and g['step_s'] * 2 <= 86400 and 'block_size' not in tgt \
                and 'max_store_duration' not in tgt and not tgt.get('no_simult_in_out'):
            st = pd.Timedelta(seconds=g['step_s'])
            mult = rnd.choice([2, 3, 4])
            tot = int((st * mult).total_seconds())
            if tot <= 86400 and 86400 % tot == 0:
                tgt['periodicity'] = ('%dmin' % (tot // 60)) if tot % 3600 else ('%dh' % (tot // 3600))
                if rnd.random() < 0.4:
                    tgt['periodicity_duration'] = ('%dmin' % (tot * 2 // 60)) if (tot * 2) % 3600 else ('%dh' % (tot * 2 // 3600))
        assets.append(a)
    if not assets:
        assets.append({'type': 'SimpleContract', 'name': newname('mkt'), 'nodes': [node_names[0]],
                       'args': {'min_cap': -40.0, 'max_cap': 40.0, 'price': price_key(rnd, prices, T)}})
    all_nodes = list(node_names)
    for a in assets:
        for x in a.get('inner_nodes', []):
            if x not in all_nodes:
                all_nodes.append(x)
    return {'grid': g, 'nodes': all_nodes, 'prices': prices, 'assets': assets}


def make_late_start(s, rnd):
    """nothing is active in the first part of the horizon: every asset gets a start at a common later grid point
    (first interval(s) of a split optimisation are then without any asset); returns the step or None"""
    T = s['grid']['T_nominal']
    k0 = rnd.randint(max(1, T // 3), max(1, (2 * T) // 3))
    st = P(s['grid'], k0)
    if not ok_local(st, s['grid']):
        return None
    for a in s['assets']:
        tgt = a['base']['args'] if a['type'] == 'ScaledAsset' else a['args']
        if a['type'] in ('OrderBook', 'StructuredAsset'):
            continue
        cur = tgt.get('start')
        if cur is None or pd.Timestamp(cur['$dt']) < st:
            tgt['start'] = dtv(st)
        if 'end' in tgt and pd.Timestamp(tgt['end']['$dt']) <= pd.Timestamp(tgt['start']['$dt']):
            tgt.pop('end')
    s['assets'] = [a for a in s['assets'] if a['type'] not in ('OrderBook', 'StructuredAsset')] or s['assets']
    s['late_start'] = k0
    return k0
