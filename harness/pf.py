"""Portfolio-level runs of the real code, comparisons with the Lean model, and the generic oracles."""
import copy
from fractions import Fraction

import numpy as np
import pandas as pd

import eaopack as eao
from . import scen, impl
from .impl import Quiet, problem_json, err_class
from .lean import fs, pf


# ------------------------------------------------------------------ running the implementation
def setup_mono(scn, skip_nodes=None, fix=None):
    """build objects and set up the monolithic problem, capturing the asset problems"""
    portf, tg, prices, nodes = scen.build(scn)
    rec = {'portf': portf, 'tg': tg, 'prices': prices, 'scn': scn}
    with Quiet(), impl.Capture(portf) as cap:
        kw = {}
        if skip_nodes:
            kw['skip_nodes'] = skip_nodes
        if fix is not None:
            kw['fix_time_window'] = fix
        op = portf.setup_optim_problem(prices, tg, **kw)
    rec['op'] = op
    rec['captured'] = {k: v[-1] for k, v in cap.caught.items()}
    return rec


def solve_rec(rec, solver=None):
    if len(rec['op'].c) == 0:
        # no asset has a step in the horizon: nothing to optimise (cvxpy rejects a variable of size zero)
        rec['res'] = 'empty problem'
        rec['out'] = None
        return rec
    try:
        res = impl.solve(rec['op'], solver=solver)
    except Exception as e:
        # the external solver gave up with an exception (ill-conditioned data): retry with HiGHS, else treat as unsolved
        if type(e).__name__ != 'SolverError':
            raise
        try:
            res = impl.solve(rec['op'], solver='SCIPY')
        except Exception:
            res = 'solver error'
    rec['res'] = res
    if isinstance(res, str):
        rec['out'] = None
        return rec
    with Quiet():
        rec['out'] = eao.io.extract_output(rec['portf'], rec['op'], res, rec['prices'])
    return rec


def setup_split(scn, interval, objects=None):
    """objects = (portf, tg, prices): reuse existing objects (history on the same objects) instead of building fresh ones"""
    if objects is not None:
        portf, tg, prices = objects
    else:
        portf, tg, prices, nodes = scen.build(scn)
    rec = {'portf': portf, 'tg': tg, 'prices': prices, 'scn': scn, 'split': interval}
    with Quiet(), impl.Capture(portf) as cap:
        op = portf.setup_split_optim_problem(prices, tg, interval_size=interval)
    rec['op'] = op
    rec['captured_list'] = cap.caught      # name -> list of asset problems, one per non-empty interval
    return rec


def split_interval(scn, tg, parts=3):
    """an interval size (pandas freq string) cutting the horizon into about `parts` pieces"""
    T = tg.T
    step = scn['grid']['step_s']
    k = max(1, T // parts)
    tot = step * k
    return ('%dmin' % (tot // 60)) if tot % 3600 else ('%dh' % (tot // 3600))


def asset_blocks(rec):
    """asset name -> list of (lo, hi) index ranges of its variables in the portfolio's x (mono: one range;
    split: one per interval), derived from the SIZES of the captured asset problems, not from the mapping"""
    blocks = {a.name: [] for a in rec['portf'].assets}
    o = 0
    if 'captured_list' in rec:
        n_iv = max(len(v) for v in rec['captured_list'].values()) if rec['captured_list'] else 0
        for k in range(n_iv):
            for a in rec['portf'].assets:
                n = len(rec['captured_list'][a.name][k].c)
                blocks[a.name].append((o, o + n))
                o += n
    else:
        for a in rec['portf'].assets:
            n = len(rec['captured'][a.name].c)
            blocks[a.name].append((o, o + n))
            o += n
    return blocks


def is_mip(op):
    m = op.mapping
    if 'bool' not in m.columns:
        return False
    mm = m[~m.index.duplicated(keep='first')]
    return bool(mm['bool'].fillna(False).astype(bool).any())


# ------------------------------------------------------------------ comparison helpers
def feq(a, b, tol):
    """a, b strings 'p/q' (or numbers): equal up to tol * max(1,|a|,|b|)"""
    fa = a if isinstance(a, Fraction) else Fraction(a)
    fb = b if isinstance(b, Fraction) else Fraction(b)
    if fa == fb:
        return True
    if tol == 0:
        return False
    d = abs(fa - fb)
    return d <= Fraction(tol) * max(1, abs(fa), abs(fb))


def cmp_vec(name, a, b, tol):
    if len(a) != len(b):
        return '%s: length %d (model) vs %d (impl)' % (name, len(a), len(b))
    for i, (x, y) in enumerate(zip(a, b)):
        if not feq(x, y, tol):
            return '%s[%d]: %s (model) vs %s (impl)' % (name, i, float(Fraction(x)), float(Fraction(y)))
    return None


def norm_row(r):
    """<= / = form with merged, non-zero coefficients"""
    cs = {}
    for j, v in r['coeffs']:
        cs[j] = cs.get(j, Fraction(0)) + Fraction(v)
    cs = {j: v for j, v in cs.items() if v != 0}
    rhs = Fraction(r['rhs'])
    k = r['kind']
    if k == 'L':
        cs = {j: -v for j, v in cs.items()}
        rhs = -rhs
        k = 'U'
    return (k, tuple(sorted(cs.items())), rhs)


def cmp_rows(name, a, b, tol, ordered=False):
    if len(a) != len(b):
        return '%s: %d rows (model) vs %d (impl); kinds %s vs %s' % (
            name, len(a), len(b), ''.join(r['kind'] for r in a)[:60], ''.join(r['kind'] for r in b)[:60])
    na = [norm_row(r) for r in a]
    nb = [norm_row(r) for r in b]
    if not ordered:
        key = lambda r: (r[0], tuple(j for j, _ in r[1]), float(r[2]), tuple(float(v) for _, v in r[1]))
        na = sorted(na, key=key)
        nb = sorted(nb, key=key)
    for i, (x, y) in enumerate(zip(na, nb)):
        if x[0] != y[0] or tuple(j for j, _ in x[1]) != tuple(j for j, _ in y[1]):
            return '%s row %d: structure %s %s (model) vs %s %s (impl)' % (name, i, x[0], [j for j, _ in x[1]][:12], y[0], [j for j, _ in y[1]][:12])
        if not feq(x[2], y[2], tol):
            return '%s row %d (%s over %s): rhs %s (model) vs %s (impl)' % (name, i, x[0], [j for j, _ in x[1]][:8], float(x[2]), float(y[2]))
        for (j, v), (_, w) in zip(x[1], y[1]):
            if not feq(v, w, tol):
                return '%s row %d: coefficient of var %d: %s (model) vs %s (impl)' % (name, i, j, float(v), float(w))
    return None


def cmp_mapping(name, a, b, tol, fields=('var', 'asset', 'node', 'kind', 'step', 'bool', 'var_name')):
    if len(a) != len(b):
        return '%s: %d mapping rows (model) vs %d (impl)' % (name, len(a), len(b))
    key = lambda m: (m['var'], m['asset'], m['node'] or '', m['kind'], m['step'], m['var_name'], float(Fraction(m['factor'])))
    sa, sb = sorted(a, key=key), sorted(b, key=key)
    for i, (x, y) in enumerate(zip(sa, sb)):
        for f in fields:
            if x[f] != y[f]:
                return '%s mapping row %d: %s = %r (model) vs %r (impl) [var %s / %s]' % (name, i, f, x[f], y[f], x['var'], y['var'])
        if not feq(x['factor'], y['factor'], tol):
            return '%s mapping row %d (var %d, step %d): factor %s (model) vs %s (impl)' % (
                name, i, x['var'], x['step'], float(Fraction(x['factor'])), float(Fraction(y['factor'])))
    return None


def cmp_problem(name, model, implj, tol=0, aspects=('c', 'l', 'u', 'rows', 'mapping', 'nodal')):
    out = []
    for v in ('c', 'l', 'u'):
        if v in aspects:
            d = cmp_vec('%s.%s' % (name, v), model[v], implj[v], tol)
            if d:
                out.append(d)
    if 'rows' in aspects:
        d = cmp_rows(name + '.rows', model['rows'], implj['rows'], tol)
        if d:
            out.append(d)
    elif 'nodalrows' in aspects:
        d = cmp_rows(name + '.N-rows', [r for r in model['rows'] if r['kind'] == 'N'], [r for r in implj['rows'] if r['kind'] == 'N'], tol)
        if d:
            out.append(d)
    if 'mapping' in aspects:
        d = cmp_mapping(name, model['mapping'], implj['mapping'], tol)
        if d:
            out.append(d)
    if 'nodal' in aspects and 'nodal' in implj:
        if [tuple(x) for x in model.get('nodal', [])] != [tuple(x) for x in implj['nodal']]:
            out.append('%s.nodal: %s (model) vs %s (impl)' % (name, model.get('nodal', [])[:6], implj['nodal'][:6]))
    return out


# ------------------------------------------------------------------ correspondences
def assets_json(rec):
    """captured asset problems in portfolio order, as the model's input"""
    out = []
    for a in rec['portf'].assets:
        op = rec['captured'][a.name]
        out.append(problem_json(op, name=a.name, nodes=[n.name for n in a.nodes]))
    return out


def corr_assemble(rec, drv, aspects=('c', 'l', 'u', 'rows', 'mapping', 'nodal'), skip=()):
    """model `assemble` applied to the captured real asset problems vs the real portfolio problem"""
    req = {'op': 'assemble', 'assets': assets_json(rec), 'gridI': [int(i) for i in rec['tg'].I], 'skip': list(skip)}
    model = drv.ok(req)
    implj = problem_json(rec['op'])
    rec['op_json'] = implj
    rec['model_json'] = model
    return [{'component': 'assemble', 'detail': d} for d in cmp_problem('assemble', model, implj, 0, aspects)]


def readout_model(rec, drv, opj=None):
    portf = rec['portf']
    res = rec['res']
    opj = opj or rec.get('op_json') or problem_json(rec['op'])
    req = {'op': 'readout', 'problem': {k: opj[k] for k in ('c', 'l', 'u', 'mapping', 'nodal') if k in opj} | {'rows': []},
           'x': [fs(v) for v in res.x], 'T': int(rec['tg'].T),
           'assets': [{'name': a.name, 'nodes': [n.name for n in a.nodes]} for a in portf.assets],
           'dualN': None if (res.duals is None or res.duals.get('N') is None) else [fs(v) for v in np.atleast_1d(res.duals['N'])]}
    return drv.ok(req)


def corr_readout(rec, drv, what=('dispatch', 'dcf', 'prices', 'special'), opj=None):
    """model read-out (dispatch, DCF, nodal prices, special) vs io.extract_output"""
    m = readout_model(rec, drv, opj)
    rec['readout_model'] = m
    out = rec['out']
    portf = rec['portf']
    dis = []
    tol = 1e-9
    T = rec['tg'].T
    if 'dispatch' in what:
        cols = impl.disp_cols(portf)
        md = {(a, n, t): Fraction(v) for a, n, t, v in m['dispatch']}
        for (a, n), col in cols.items():
            if col not in out['dispatch'].columns:
                dis.append({'component': 'readout.dispatch', 'detail': 'column %r missing in dispatch output' % col})
                continue
            colv = out['dispatch'][col].values
            if list(cols.values()).count(col) > 1:
                continue  # label collision of contrived names: not comparable per (asset,node)
            for t in range(T):
                if not np.isfinite(float(colv[t])) or not feq(md.get((a, n, t), Fraction(0)), Fraction(float(colv[t])), tol):
                    dis.append({'component': 'readout.dispatch', 'detail': 'dispatch %s@%s step %d: %s (model) vs %s (impl)' % (
                        a, n, t, float(md.get((a, n, t), 0)), float(colv[t]))})
                    break
    if 'dcf' in what:
        md = {(a, t): Fraction(v) for a, t, v in m['dcf']}
        for a in portf.assets:
            colv = out['DCF'][a.name].values
            for t in range(T):
                # (an undefined cell is a disagreement with the model's table; what it means for the property - the SUM of the table -
                #  is for the value-accounting oracle to say)
                if not np.isfinite(float(colv[t])) or not feq(md.get((a.name, t), Fraction(0)), Fraction(float(colv[t])), tol):
                    dis.append({'component': 'readout.dcf', 'detail': 'DCF %s step %d: %s (model) vs %s (impl)' % (
                        a.name, t, float(md.get((a.name, t), 0)), float(colv[t]))})
                    break
    if 'prices' in what and m['prices'] is not None:
        pr = out['prices']
        for t, n, v in m['prices']:
            col = 'nodal price: ' + n
            if col not in pr.columns:
                dis.append({'component': 'readout.prices', 'detail': 'column %r missing' % col})
                break
            w = pr[col].values[t]
            if not feq(Fraction(v), Fraction(float(w)), tol):
                dis.append({'component': 'readout.prices', 'detail': 'nodal price %s step %d: %s (model) vs %s (impl)' % (n, t, float(Fraction(v)), w)})
                break
    return dis


# ------------------------------------------------------------------ oracles on the real code
def orc_nodal_balance(rec, tag='mono'):
    """C01: per node and step the dispatch columns of that node sum to zero"""
    out = rec['out']
    portf = rec['portf']
    disp = out['dispatch']
    cols = impl.disp_cols(portf)
    viol = []
    scale = impl.tol_of(disp.values, rel=1.0)
    tol = 2e-6 * scale
    nontrivial = 0
    for n in portf.nodes:
        cs = [c for (a, nn), c in cols.items() if nn == n]
        if len(set(cs)) != len(cs):
            continue
        tot = np.zeros(len(disp))
        nz = np.zeros(len(disp))
        for c in cs:
            v = disp[c].values.astype(float)
            tot += v
            nz += (np.abs(v) > 1e-7)
        nontrivial += int((nz >= 2).sum())
        bad = np.where(np.abs(tot) > tol)[0]
        if len(bad):
            t = int(bad[0])
            viol.append({'oracle': 'nodal_balance', 'detail': '%s: node %s step %d: dispatch sums to %.6g (tolerance %.2g); columns %s' % (
                tag, n, t, tot[t], tol, {c: float(disp[c].values[t]) for c in cs}),
                'facts': {'mode': tag, 'node': n, 'step': t}})
    return viol, nontrivial


def asset_offsets(rec):
    offs = {}
    o = 0
    for a in rec['portf'].assets:
        offs[a.name] = (o, o + len(rec['captured'][a.name].c))
        o += len(rec['captured'][a.name].c)
    return offs


def orc_value_accounting(rec, tag='mono', offsets=None):
    """C04: value = sum of DCF table; per asset: sum DCF_a = - c_a . x_a"""
    out, res, op = rec['out'], rec['res'], rec['op']
    viol = []
    dcf = out['DCF']
    total = float(np.nansum(dcf.values))
    scale = max(1.0, abs(res.value), float(np.nansum(np.abs(np.asarray(dcf.values, dtype=float)))))   # (finite cells only: a NaN cell must not silence the oracle)
    tol = 1e-6 * scale
    if abs(total - res.value) > tol:
        viol.append({'oracle': 'value_accounting', 'detail': '%s: reported value %.8g but DCF table sums to %.8g' % (tag, res.value, total),
                     'facts': {'mode': tag, 'what': 'total'}})
    sval = float(out['summary'].loc['value', 'Values'])
    if abs(sval - res.value) > tol:
        viol.append({'oracle': 'value_accounting', 'detail': '%s: summary value %.8g vs result value %.8g' % (tag, sval, res.value),
                     'facts': {'mode': tag, 'what': 'summary'}})
    if offsets:
        for a in rec['portf'].assets:
            own = 0.0
            for lo, hi in offsets[a.name]:
                own += -float(np.dot(op.c[lo:hi], res.x[lo:hi]))
            got = float(dcf[a.name].sum())
            if abs(own - got) > tol:
                viol.append({'oracle': 'value_accounting', 'detail': '%s: asset %s: DCF total %.8g but minus cost of its own variables is %.8g' % (tag, a.name, got, own),
                             'facts': {'mode': tag, 'what': 'asset', 'asset_type': type(a).__name__}})
    return viol


def feasibility_violation(op, x, scale_tol=1e-6):
    """largest violation of bounds and rows of an OptimProblem by x; returns (max violation, description)"""
    import scipy.sparse as sp
    worst, what = 0.0, None
    sc = max(1.0, float(np.abs(x).max()) if len(x) else 1.0)
    lo = op.l - x
    hi = x - op.u
    for arr, nm in ((lo, 'lower bound'), (hi, 'upper bound')):
        if len(arr):
            i = int(np.argmax(arr))
            if arr[i] > worst:
                worst, what = float(arr[i]), '%s of variable %d' % (nm, i)
    if op.A is not None and op.A.shape[0] > 0:
        A = sp.csr_matrix(op.A)
        ax = A @ x
        b = np.asarray(op.b, dtype=float)
        for i, k in enumerate(op.cType):
            if k == 'U':
                v = ax[i] - b[i]
            elif k == 'L':
                v = b[i] - ax[i]
            else:
                v = abs(ax[i] - b[i])
            rs = max(1.0, abs(b[i]), float(np.abs(A[i].data).max()) if A[i].nnz else 1.0)
            v = v / rs
            if v > worst:
                worst, what = float(v), 'row %d of type %s' % (i, k)
    return worst / sc, what


# ------------------------------------------------------------------ hypotheses of the assembly theorems, evaluated on the real asset problems
def hyp_wf(rec):
    """The generic theorems (C01, C04, C07, C09) are stated for asset problems satisfying well-formedness predicates
    (EAO.C01.WF, EAO.C04.WF, EAO.C07.AssetWF, EAO.C09.WF / Local).  They are proved for the modelled builders; here they are
    EVALUATED on every captured real asset problem (all asset classes, also unmodelled ones).  A failure means the code left the
    domain of the theorems: reported as a broken tie (component 'hypothesis')."""
    import scipy.sparse as sp
    out = []
    tg = rec['tg']
    steps = set(int(i) for i in tg.I)
    T = int(tg.T)
    for a in rec['portf'].assets:
        op = rec['captured'][a.name]
        n = len(op.c)

        def bad(msg):
            out.append({'component': 'hypothesis', 'detail': 'asset %r (%s): %s' % (a.name, type(a).__name__, msg)})
        if len(op.l) != n or len(op.u) != n:
            bad('AssetWF.len: c, l, u have lengths %d, %d, %d' % (n, len(op.l), len(op.u)))
            continue
        if op.A is not None:
            A = sp.csr_matrix(op.A)
            if A.shape[1] != n:
                bad('AssetWF.cols / Local.cols: matrix has %d columns for %d variables' % (A.shape[1], n))
            if 'N' in (op.cType or ''):
                bad('AssetWF.noN: asset rows of type N')
        m = op.mapping
        if m is None or len(m) == 0:
            if n and np.any(np.asarray(op.c) != 0):
                bad('C04.WF.rowless: variables without mapping row carry cost')
            continue
        idx = np.asarray(m.index, dtype=float)
        if np.isnan(idx).any() or (idx < 0).any() or (idx >= n).any():
            bad('WF.map: mapping index outside 0..%d' % (n - 1))
            continue
        if (m['asset'].astype(str) != a.name).any():
            bad('WF.map: mapping row names another asset')
        st = set(int(t) for t in m['time_step'].values)
        if not st <= steps or (st and max(st) >= T):
            bad('WF.disp / C04.WF.map: mapping step not on the grid')
        d = m[m['type'] == 'd']
        nn = set(str(x) for x in d['node'].values)
        if not nn <= set(x.name for x in a.nodes):
            bad('WF.disp: dispatch row at a node that is not one of the asset\'s nodes: %s' % sorted(nn - set(x.name for x in a.nodes))[:2])
        mapped = set(int(i) for i in m.index)
        for j in range(n):
            if j not in mapped and op.c[j] != 0:
                bad('C04.WF.rowless: variable %d has no mapping row but cost %s' % (j, op.c[j]))
                break
    names = [a.name for a in rec['portf'].assets]
    if len(set(names)) != len(names):
        out.append({'component': 'hypothesis', 'detail': 'asset names not distinct'})
    return out
