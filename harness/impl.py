"""Runs the real eaopack code in-process and converts what it produces into the canonical,
exact (Fraction) representation that is compared with the Lean model."""
import copy
import io as _io
import contextlib
import math
from fractions import Fraction

import numpy as np
import pandas as pd
import scipy.sparse as sp

import eaopack as eao
from .lean import fs


class Quiet:
    """eaopack prints warnings; keep the check output clean"""

    def __enter__(self):
        self._cm = contextlib.redirect_stdout(_io.StringIO())
        self._cm.__enter__()
        return self

    def __exit__(self, *a):
        return self._cm.__exit__(*a)


def err_class(e):
    """map an exception onto a small enum (class, never message text)"""
    if isinstance(e, AssertionError):
        return 'assert'
    if isinstance(e, NotImplementedError):
        return 'not-implemented'
    if isinstance(e, ValueError):
        return 'value'
    if isinstance(e, (IndexError, KeyError)):
        return 'index'
    if isinstance(e, TypeError):
        return 'type'
    if isinstance(e, AttributeError):
        return 'attribute'
    return type(e).__name__


def isnan(v):
    try:
        return v is None or (isinstance(v, float) and math.isnan(v)) or (v is pd.NA)
    except Exception:
        return False


def rows_of(A, b, cType):
    """list of {coeffs: [[j, 'p/q']...], rhs, kind} from a sparse matrix (duplicates summed, zeros dropped)"""
    if A is None:
        return []
    A = sp.csr_matrix(A)
    A.sum_duplicates()
    rows = []
    for i in range(A.shape[0]):
        lo, hi = A.indptr[i], A.indptr[i + 1]
        cs = sorted((int(j), float(v)) for j, v in zip(A.indices[lo:hi], A.data[lo:hi]) if v != 0)
        rows.append({'coeffs': [[j, fs(v)] for j, v in cs], 'rhs': fs(b[i]), 'kind': cType[i]})
    return rows


def mapping_rows(mapping):
    out = []
    if mapping is None or len(mapping) == 0:
        return out
    cols = set(mapping.columns)
    for idx, r in zip(mapping.index, mapping.to_dict('records')):
        node = r.get('node')
        fac = r.get('disp_factor', 1.0) if 'disp_factor' in cols else 1.0
        if isnan(fac):
            fac = 1.0
        bl = r.get('bool', False) if 'bool' in cols else False
        if isnan(bl):
            bl = False
        vn = r.get('var_name') if 'var_name' in cols else None
        out.append({'var': int(idx), 'asset': str(r.get('asset')), 'node': None if isnan(node) else str(node),
                    'kind': str(r.get('type')), 'step': int(r.get('time_step')), 'factor': fs(fac), 'bool': bool(bl),
                    'var_name': 'nan' if isnan(vn) else str(vn)})
    return out


def problem_json(op, name=None, nodes=None):
    d = {'c': [fs(v) for v in op.c], 'l': [fs(v) for v in op.l], 'u': [fs(v) for v in op.u],
         'rows': rows_of(op.A, op.b, op.cType), 'mapping': mapping_rows(op.mapping)}
    mnr = getattr(op, 'map_nodal_restr', None)
    if mnr is not None:
        d['nodal'] = [[int(t), str(n)] for (t, n) in mnr]
    if name is not None:
        d['name'] = name
        d['nodes'] = nodes
    return d


class Capture:
    """wraps `setup_optim_problem` of every asset of a portfolio to keep a copy of what each returned"""

    def __init__(self, portf):
        self.portf = portf
        self.caught = {}
        self.errors = {}

    def __enter__(self):
        for a in self.portf.assets:
            orig = a.setup_optim_problem

            def wrapped(*args, _orig=orig, _a=a, **kw):
                op = _orig(*args, **kw)
                if not kw.get('costs_only', False) and not (len(args) > 2 and args[2]):
                    self.caught.setdefault(_a.name, []).append(copy.deepcopy(op))
                return op
            a.__dict__['setup_optim_problem'] = wrapped
        return self

    def __exit__(self, *exc):
        for a in self.portf.assets:
            a.__dict__.pop('setup_optim_problem', None)
        return False


def solve(op, solver=None, **kw):
    with Quiet():
        if solver is None:
            return op.optimize(**kw)
        return op.optimize(solver=solver, **kw)


def disp_cols(portf):
    """(asset, node) -> column label of the dispatch table, as io.extract_output builds it"""
    cols = {}
    for a in portf.assets:
        for n in a.nodes:
            cols[(a.name, n.name)] = a.name if len(portf.nodes) == 1 else a.name + ' (' + n.name + ')'
    return cols


def tol_of(*arrays, rel=1e-6):
    m = 1.0
    for a in arrays:
        a = np.asarray(a, dtype=float)
        if a.size:
            m = max(m, float(np.nanmax(np.abs(a))))
    return rel * m
