/-! Scratch proof from the design round (not framework code): Lagrangian upper bound for
    box-constrained LPs with row kinds U/L/S/N and sparse rows.  Core Lean only. -/

abbrev Vec := Nat → Rat

def sumR (l : List Rat) : Rat := l.foldr (· + ·) 0
@[simp] theorem sumR_nil : sumR [] = 0 := rfl
@[simp] theorem sumR_cons (a : Rat) (l : List Rat) : sumR (a :: l) = a + sumR l := rfl

theorem sumR_map_add {α} (l : List α) (f g : α → Rat) :
    sumR (l.map fun a => f a + g a) = sumR (l.map f) + sumR (l.map g) := by
  induction l with
  | nil => simp [Rat.zero_add]
  | cons a l ih => simp [ih]; grind

theorem sumR_map_mul_left {α} (l : List α) (k : Rat) (f : α → Rat) :
    sumR (l.map fun a => k * f a) = k * sumR (l.map f) := by
  induction l with
  | nil => simp [Rat.mul_zero]
  | cons a l ih => simp [ih]; grind

theorem sumR_map_le {α} (l : List α) (f g : α → Rat) (h : ∀ a ∈ l, f a ≤ g a) :
    sumR (l.map f) ≤ sumR (l.map g) := by
  induction l with
  | nil => simp [Rat.le_refl]
  | cons a l ih =>
    have h1 := h a (by simp)
    have h2 := ih (fun b hb => h b (by simp [hb]))
    simp; grind

theorem sumR_map_zero {α} (l : List α) : sumR (l.map fun _ => (0 : Rat)) = 0 := by
  induction l with
  | nil => simp
  | cons a l ih => simp [ih, Rat.zero_add]

/-- indicator sum over `range n` -/
theorem sum_indicator (n k : Nat) (hk : k < n) (a : Rat) (x : Vec) :
    sumR ((List.range n).map fun j => (if k = j then a else 0) * x j) = a * x k := by
  induction n with
  | zero => omega
  | succ n ih =>
    rw [List.range_succ, List.map_append]
    have happ : ∀ (u v : List Rat), sumR (u ++ v) = sumR u + sumR v := by
      intro u v; induction u with
      | nil => simp [Rat.zero_add]
      | cons b u ihu => simp [ihu]; grind
    rw [happ]
    by_cases hkn : k = n
    · subst hkn
      have : sumR ((List.range k).map fun j => (if k = j then a else 0) * x j) = 0 := by
        have : ((List.range k).map fun j => (if k = j then a else 0) * x j) = (List.range k).map fun _ => (0:Rat) := by
          apply List.map_congr_left
          intro j hj
          have : k ≠ j := by have := List.mem_range.mp hj; omega
          simp [this, Rat.zero_mul]
        rw [this, sumR_map_zero]
      simp [this, Rat.zero_add, Rat.add_zero]
    · have := ih (by omega)
      simp [this, hkn, Rat.zero_mul, Rat.add_zero]

inductive RowKind | U | L | S | N
structure Row where
  coeffs : List (Nat × Rat)
  rhs : Rat
  kind : RowKind

def Row.eval (r : Row) (x : Vec) : Rat := sumR (r.coeffs.map fun p => p.2 * x p.1)
def Row.coef (r : Row) (j : Nat) : Rat := sumR (r.coeffs.map fun p => if p.1 = j then p.2 else 0)
def Row.Sat (r : Row) (x : Vec) : Prop :=
  match r.kind with
  | .U => r.eval x ≤ r.rhs
  | .L => r.rhs ≤ r.eval x
  | .S => r.eval x = r.rhs
  | .N => r.eval x = r.rhs
def Row.SignOK (r : Row) (y : Rat) : Prop :=
  match r.kind with
  | .U => 0 ≤ y
  | .L => y ≤ 0
  | _ => True

/-- dense reading of a sparse row whose indices are below n -/
theorem eval_dense_aux (cs : List (Nat × Rat)) (n : Nat) (h : ∀ p ∈ cs, p.1 < n) (x : Vec) :
    sumR (cs.map fun p => p.2 * x p.1)
      = sumR ((List.range n).map fun j => sumR (cs.map fun p => if p.1 = j then p.2 else 0) * x j) := by
  induction cs with
  | nil => simp [Rat.zero_mul, sumR_map_zero]
  | cons p ps ih =>
    have hp := h p (by simp)
    have ih' := ih (fun q hq => h q (by simp [hq]))
    simp only [List.map_cons, sumR_cons]
    rw [ih']
    have : (fun j => ((if p.1 = j then p.2 else 0) + sumR (ps.map fun q => if q.1 = j then q.2 else 0)) * x j)
         = (fun j => (if p.1 = j then p.2 else 0) * x j + sumR (ps.map fun q => if q.1 = j then q.2 else 0) * x j) := by
      funext j; grind
    rw [this, sumR_map_add, sum_indicator n p.1 hp]

theorem eval_dense (r : Row) (n : Nat) (h : ∀ p ∈ r.coeffs, p.1 < n) (x : Vec) :
    r.eval x = sumR ((List.range n).map fun j => r.coef j * x j) :=
  eval_dense_aux r.coeffs n h x

/-- the pairs (row, multiplier) -/
abbrev Rows := List (Row × Rat)

def colDot (ry : Rows) (j : Nat) : Rat := sumR (ry.map fun q => q.2 * q.1.coef j)

theorem exchange (ry : Rows) (n : Nat) (x : Vec) :
    sumR (ry.map fun q => q.2 * sumR ((List.range n).map fun j => q.1.coef j * x j))
      = sumR ((List.range n).map fun j => colDot ry j * x j) := by
  induction ry with
  | nil => simp [colDot, Rat.zero_mul, sumR_map_zero]
  | cons q qs ih =>
    simp only [List.map_cons, sumR_cons, ih, colDot]
    rw [← sumR_map_mul_left, ← sumR_map_add]
    congr 1
    apply List.map_congr_left
    intro j _
    grind

structure LP where
  n : Nat
  c : Vec
  l : Vec
  u : Vec

def value (P : LP) (x : Vec) : Rat := - sumR ((List.range P.n).map fun j => P.c j * x j)
def red (P : LP) (ry : Rows) (j : Nat) : Rat := - P.c j - colDot ry j
def maxR (a b : Rat) : Rat := if a ≤ b then b else a
def lagrangianUB (P : LP) (ry : Rows) : Rat :=
  sumR (ry.map fun q => q.2 * q.1.rhs)
    + sumR ((List.range P.n).map fun j => maxR (red P ry j * P.l j) (red P ry j * P.u j))

theorem box_term (k l u x : Rat) (h1 : l ≤ x) (h2 : x ≤ u) : k * x ≤ maxR (k * l) (k * u) := by
  unfold maxR
  by_cases hk : 0 ≤ k
  · have := Rat.mul_le_mul_of_nonneg_left h2 hk
    split <;> grind
  · have hk' : 0 ≤ -k := by grind
    have := Rat.mul_le_mul_of_nonneg_left h1 hk'
    split <;> grind

theorem row_term (r : Row) (y : Rat) (x : Vec) (hs : r.SignOK y) (hx : r.Sat x) :
    y * r.eval x ≤ y * r.rhs := by
  unfold Row.SignOK at hs; unfold Row.Sat at hx
  cases hk : r.kind <;> simp [hk] at hs hx
  · exact Rat.mul_le_mul_of_nonneg_left hx hs
  · have h' : 0 ≤ -y := by grind
    have := Rat.mul_le_mul_of_nonneg_left hx h'
    grind
  · rw [hx]; exact Rat.le_refl
  · rw [hx]; exact Rat.le_refl

theorem lagrangian_bound (P : LP) (ry : Rows)
    (hidx : ∀ q ∈ ry, ∀ p ∈ q.1.coeffs, p.1 < P.n)
    (hsign : ∀ q ∈ ry, q.1.SignOK q.2)
    (x : Vec) (hbox : ∀ j, j < P.n → P.l j ≤ x j ∧ x j ≤ P.u j)
    (hrows : ∀ q ∈ ry, q.1.Sat x) :
    value P x ≤ lagrangianUB P ry := by
  -- Σ_i y_i eval_i x  ≤  Σ_i y_i rhs_i
  have h1 : sumR (ry.map fun q => q.2 * q.1.eval x) ≤ sumR (ry.map fun q => q.2 * q.1.rhs) :=
    sumR_map_le _ _ _ (fun q hq => row_term q.1 q.2 x (hsign q hq) (hrows q hq))
  -- Σ_i y_i eval_i x = Σ_j colDot_j x_j
  have h2 : sumR (ry.map fun q => q.2 * q.1.eval x) = sumR ((List.range P.n).map fun j => colDot ry j * x j) := by
    rw [← exchange]
    congr 1
    apply List.map_congr_left
    intro q hq
    rw [eval_dense q.1 P.n (hidx q hq) x]
  -- Σ_j red_j x_j ≤ Σ_j max(...)
  have h3 : sumR ((List.range P.n).map fun j => red P ry j * x j)
      ≤ sumR ((List.range P.n).map fun j => maxR (red P ry j * P.l j) (red P ry j * P.u j)) :=
    sumR_map_le _ _ _ (fun j hj => by
      have hb := hbox j (List.mem_range.mp hj)
      exact box_term _ _ _ _ hb.1 hb.2)
  -- value = Σ_j red_j x_j + Σ_j colDot_j x_j
  have h4 : value P x = sumR ((List.range P.n).map fun j => red P ry j * x j)
                        + sumR ((List.range P.n).map fun j => colDot ry j * x j) := by
    unfold value
    rw [← sumR_map_add]
    have : (fun j => red P ry j * x j + colDot ry j * x j) = (fun j => (-1) * (P.c j * x j)) := by
      funext j; unfold red; grind
    rw [this, sumR_map_mul_left]; grind
  unfold lagrangianUB
  rw [h4, ← h2]
  grind

#print axioms lagrangian_bound
