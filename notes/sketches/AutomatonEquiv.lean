/-! Scratch proof from the design round (not framework code):
    run-length specification ⇔ acceptance by the min-up/min-down automaton. Core Lean only. -/

structure UC where
  T : Nat
  R : Nat
  D : Nat
  tar : Nat
  tao : Nat

def Spec (p : UC) (on : Nat → Bool) : Prop :=
  (∀ s, 0 < s → s < p.T → on s = true → on (s-1) = false → ∀ k, k < p.R → s + k < p.T → on (s+k) = true) ∧
  (p.tar = 0 → on 0 = true → ∀ k, k < p.R → k < p.T → on k = true) ∧
  (0 < p.tar → ∀ t, t < p.R - p.tar → t < p.T → on t = true) ∧
  (∀ s, 0 < s → s < p.T → on s = false → on (s-1) = true → ∀ k, k < p.D → s + k < p.T → on (s+k) = false) ∧
  (p.tao = 0 → on 0 = false → ∀ k, k < p.D → k < p.T → on k = false) ∧
  (0 < p.tao → ∀ t, t < p.D - p.tao → t < p.T → on t = false)

abbrev St := Bool × Nat

def initSt (p : UC) : St :=
  if 0 < p.tar then (true, p.tar) else if 0 < p.tao then (false, p.tao) else (false, p.D)

def thr (p : UC) (c : Bool) : Nat := if c then p.R else p.D

theorem initSt_fst (p : UC) : (initSt p).1 = decide (0 < p.tar) := by
  unfold initSt
  by_cases h : 0 < p.tar
  · simp [h]
  · by_cases h2 : 0 < p.tao <;> simp [h, h2]

theorem initSt_snd_tar (p : UC) (h : 0 < p.tar) : (initSt p).2 = p.tar := by simp [initSt, h]
theorem initSt_snd_tao (p : UC) (h : ¬ 0 < p.tar) (h2 : 0 < p.tao) : (initSt p).2 = p.tao := by simp [initSt, h, h2]
theorem initSt_snd_none (p : UC) (h : ¬ 0 < p.tar) (h2 : ¬ 0 < p.tao) : (initSt p).2 = p.D := by simp [initSt, h, h2]

def step (p : UC) (s : St) (v : Bool) : Option St :=
  if v = s.1 then some (s.1, s.2 + 1)
  else if thr p s.1 ≤ s.2 then some (v, 1) else none

def st (p : UC) (on : Nat → Bool) : Nat → Option St
  | 0 => some (initSt p)
  | t+1 => (st p on t).bind (fun s => step p s (on t))

def accepts (p : UC) (on : Nat → Bool) : Prop := (st p on p.T).isSome

/-- guard of the constructor: not both "already running" and "already off" -/
def Guard (p : UC) : Prop := ¬ (0 < p.tar ∧ 0 < p.tao)

theorem st_none_mono (p : UC) (on : Nat → Bool) (t d : Nat) (h : st p on t = none) : st p on (t+d) = none := by
  induction d with
  | zero => simpa using h
  | succ d ih => rw [← Nat.add_assoc]; simp [st, ih]

theorem st_some_of_le (p : UC) (on : Nat → Bool) (t T : Nat) (hle : t ≤ T) (h : (st p on T).isSome) :
    (st p on t).isSome := by
  cases hst : st p on t with
  | some s => simp
  | none =>
    have := st_none_mono p on t (T - t) hst
    rw [Nat.add_sub_cancel' hle] at this
    simp [this] at h

/-- while in state (c, j) with j below the threshold, the next symbol must be c -/
theorem forced (p : UC) (on : Nat → Bool) (t : Nat) (c : Bool) (j : Nat)
    (hst : st p on t = some (c, j)) (hj : j < thr p c) (hnext : (st p on (t+1)).isSome) :
    on t = c ∧ st p on (t+1) = some (c, j+1) := by
  simp only [st, hst, Option.bind_some, step] at hnext ⊢
  by_cases h : on t = c
  · simp [h]
  · simp [h] at hnext ⊢
    omega

/-- after entering state (c,1) at time s+1, an accepted word keeps c for thr steps -/
theorem hold (p : UC) (on : Nat → Bool) (s : Nat) (c : Bool) (j0 : Nat)
    (hst : st p on (s+1) = some (c, j0)) (hon : on s = c) (hacc : (st p on p.T).isSome) :
    ∀ k, j0 + k ≤ thr p c → s + k < p.T → on (s+k) = c ∧ st p on (s+k+1) = some (c, j0 + k) := by
  intro k
  induction k with
  | zero => intro _ _; exact ⟨hon, by simpa using hst⟩
  | succ k ih =>
    intro hk hT
    have ⟨_, hs⟩ := ih (by omega) (by omega)
    have hsome : (st p on (s+k+1+1)).isSome := st_some_of_le p on _ p.T (by omega) hacc
    have := forced p on (s+k+1) c (j0+k) hs (by omega) hsome
    refine ⟨by simpa [Nat.add_assoc] using this.1, ?_⟩
    have h2 := this.2
    simpa [Nat.add_assoc] using h2

/-- state right after a switch at time t -/
theorem switch_state (p : UC) (on : Nat → Bool) (t : Nat) (c : Bool) (k : Nat)
    (hst : st p on t = some (c, k)) (hv : on t ≠ c) (hsome : (st p on (t+1)).isSome) :
    st p on (t+1) = some (on t, 1) ∧ thr p c ≤ k := by
  simp only [st, hst, Option.bind_some, step] at hsome ⊢
  simp [hv] at hsome ⊢
  exact hsome

/-- the current symbol of the state is the previous input (or the initial one) -/
theorem st_cur (p : UC) (on : Nat → Bool) (t : Nat) (c : Bool) (k : Nat)
    (hst : st p on (t+1) = some (c, k)) : on t = c := by
  simp only [st] at hst
  cases h : st p on t with
  | none => simp [h] at hst
  | some s =>
    simp only [h, Option.bind_some, step] at hst
    by_cases hv : on t = s.1
    · simp [hv] at hst; rw [hv]; exact hst.1
    · simp [hv] at hst
      exact hst.2.1


/-- Direction A: acceptance implies the run-length specification -/
theorem accepts_imp_spec (p : UC) (on : Nat → Bool) (hg : Guard p) (hx : 1 < p.D → (0 < p.tar ∨ 0 < p.tao))
    (hacc : accepts p on) : Spec p on := by
  unfold accepts at hacc
  refine ⟨?_, ?_, ?_, ?_, ?_, ?_⟩
  · -- switch-on at s ≥ 1
    intro s hs hsT hon hoff k hk hskT
    obtain ⟨s', rfl⟩ : ∃ s', s = s' + 1 := ⟨s - 1, by omega⟩
    simp at hoff
    have hsome1 : (st p on (s'+1)).isSome := st_some_of_le p on _ p.T (by omega) hacc
    have hsome2 : (st p on (s'+1+1)).isSome := st_some_of_le p on _ p.T (by omega) hacc
    obtain ⟨⟨c, j⟩, hst⟩ := Option.isSome_iff_exists.mp hsome1
    have hc : on s' = c := st_cur p on s' c j hst
    have hne : on (s'+1) ≠ c := by rw [← hc, hon, hoff]; decide
    have hsw := (switch_state p on (s'+1) c j hst hne hsome2).1
    rw [hon] at hsw
    have := hold p on (s'+1) true 1 hsw hon hacc k (by simp [thr]; omega) hskT
    exact this.1
  · -- start at step 0 after being off
    intro htar hon k hk hkT
    have hT : 0 < p.T := by omega
    have hsome1 : (st p on 1).isSome := st_some_of_le p on _ p.T (by omega) hacc
    have hinit : st p on 0 = some (false, (initSt p).2) := by
      simp [st, initSt, htar]; split <;> rfl
    have hne : on 0 ≠ false := by rw [hon]; decide
    have hsw := (switch_state p on 0 false _ hinit hne hsome1).1
    rw [hon] at hsw
    have := hold p on 0 true 1 hsw hon hacc k (by simp [thr]; omega) (by omega)
    simpa using this.1
  · -- already running for tar < R
    intro htar t ht htT
    have hinit : st p on 0 = some (true, p.tar) := by simp [st, initSt, htar]
    -- generalised hold from time 0: state (true, tar + t) as long as tar + t < R
    have key : ∀ k, p.tar + k < p.R → k < p.T → on k = true ∧ st p on (k+1) = some (true, p.tar + k + 1) := by
      intro k
      induction k with
      | zero =>
        intro h1 h2
        have hsome : (st p on 1).isSome := st_some_of_le p on _ p.T (by omega) hacc
        have := forced p on 0 true p.tar hinit (by simp [thr]; omega) hsome
        simpa using this
      | succ k ih =>
        intro h1 h2
        have ⟨_, hs⟩ := ih (by omega) (by omega)
        have hsome : (st p on (k+1+1)).isSome := st_some_of_le p on _ p.T (by omega) hacc
        have := forced p on (k+1) true (p.tar + k + 1) hs (by simp [thr]; omega) hsome
        exact ⟨this.1, by simpa [Nat.add_assoc] using this.2⟩
    exact (key t (by omega) htT).1
  · -- switch-off at s ≥ 1
    intro s hs hsT hoff hon k hk hskT
    obtain ⟨s', rfl⟩ : ∃ s', s = s' + 1 := ⟨s - 1, by omega⟩
    simp at hon
    have hsome1 : (st p on (s'+1)).isSome := st_some_of_le p on _ p.T (by omega) hacc
    have hsome2 : (st p on (s'+1+1)).isSome := st_some_of_le p on _ p.T (by omega) hacc
    obtain ⟨⟨c, j⟩, hst⟩ := Option.isSome_iff_exists.mp hsome1
    have hc : on s' = c := st_cur p on s' c j hst
    have hne : on (s'+1) ≠ c := by rw [← hc, hon, hoff]; decide
    have hsw := (switch_state p on (s'+1) c j hst hne hsome2).1
    rw [hoff] at hsw
    have := hold p on (s'+1) false 1 hsw hoff hacc k (by simp [thr]; omega) hskT
    exact this.1
  · -- stop at step 0 after running (tao = 0)
    intro htao hoff k hk hkT
    by_cases htar : 0 < p.tar
    · have hinit : st p on 0 = some (true, p.tar) := by simp [st, initSt, htar]
      have hsome1 : (st p on 1).isSome := st_some_of_le p on _ p.T (by omega) hacc
      have hne : on 0 ≠ true := by rw [hoff]; decide
      have hsw := (switch_state p on 0 true _ hinit hne hsome1).1
      rw [hoff] at hsw
      have := hold p on 0 false 1 hsw hoff hacc k (by simp [thr]; omega) (by omega)
      simpa using this.1
    · -- neither running nor off history: the constructor guard gives D ≤ 1, so only k = 0 is asked
      have hD : p.D ≤ 1 := by
        by_cases h : 1 < p.D
        · cases hx h with
          | inl h1 => exact absurd h1 htar
          | inr h2 => omega
        · omega
      have : k = 0 := by omega
      subst this; exact hoff
  · -- already off for tao < D
    intro htao t ht htT
    have htar : ¬ 0 < p.tar := fun h => hg ⟨h, htao⟩
    have hinit : st p on 0 = some (false, p.tao) := by simp [st, initSt, htar, htao]
    have key : ∀ k, p.tao + k < p.D → k < p.T → on k = false ∧ st p on (k+1) = some (false, p.tao + k + 1) := by
      intro k
      induction k with
      | zero =>
        intro h1 h2
        have hsome : (st p on 1).isSome := st_some_of_le p on _ p.T (by omega) hacc
        have := forced p on 0 false p.tao hinit (by simp [thr]; omega) hsome
        simpa using this
      | succ k ih =>
        intro h1 h2
        have ⟨_, hs⟩ := ih (by omega) (by omega)
        have hsome : (st p on (k+1+1)).isSome := st_some_of_le p on _ p.T (by omega) hacc
        have := forced p on (k+1) false (p.tao + k + 1) hs (by simp [thr]; omega) hsome
        exact ⟨this.1, by simpa [Nat.add_assoc] using this.2⟩
    exact (key t (by omega) htT).1

/-- invariant for direction B -/
def Origin (p : UC) (on : Nat → Bool) (t : Nat) (c : Bool) (k : Nat) : Prop :=
  (∃ s, 0 < s ∧ s + k = t ∧ on s = c ∧ on (s-1) = !c) ∨
  (0 < t ∧ k = t ∧ (initSt p).1 = !c ∧ on 0 = c) ∨
  (c = (initSt p).1 ∧ k = (initSt p).2 + t ∧ ∀ j, j < t → on j = c)

theorem spec_imp_inv (p : UC) (on : Nat → Bool) (hg : Guard p) (hs : Spec p on) :
    ∀ t, t ≤ p.T → ∃ c k, st p on t = some (c, k) ∧ (0 < t → on (t-1) = c) ∧ Origin p on t c k := by
  obtain ⟨hU1, hU0, hUi, hD1, hD0, hDi⟩ := hs
  intro t
  induction t with
  | zero =>
    intro _
    refine ⟨(initSt p).1, (initSt p).2, rfl, by omega, Or.inr (Or.inr ⟨rfl, by simp, by omega⟩)⟩
  | succ t ih =>
    intro htT
    obtain ⟨c, k, hst, hprev, horig⟩ := ih (by omega)
    by_cases hv : on t = c
    · -- no switch
      refine ⟨c, k+1, ?_, by simpa using hv, ?_⟩
      · simp [st, hst, step, hv]
      · rcases horig with ⟨s, hs0, hsk, h1, h2⟩ | ⟨ht0, hk, h1, h2⟩ | ⟨h1, hk, hall⟩
        · exact Or.inl ⟨s, hs0, by omega, h1, h2⟩
        · exact Or.inr (Or.inl ⟨by omega, by omega, h1, h2⟩)
        · refine Or.inr (Or.inr ⟨h1, by omega, ?_⟩)
          intro j hj
          by_cases hjt : j = t
          · subst hjt; exact hv
          · exact hall j (by omega)
    · -- switch at t : show the threshold is met, using the specification
      have hthr : thr p c ≤ k := by
        apply Nat.le_of_not_lt
        intro hlt
        cases c with
        | true =>
          simp [thr] at hlt
          have hoff : on t = false := by cases h : on t <;> simp_all
          rcases horig with ⟨s, hs0, hsk, h1, h2⟩ | ⟨ht0, hk, h1, h2⟩ | ⟨h1, hk, hall⟩
          · have := hU1 s hs0 (by omega) h1 (by simpa using h2) k hlt (by omega)
            rw [hsk, hoff] at this; exact Bool.noConfusion this
          · have htar : p.tar = 0 := by
              rw [initSt_fst] at h1; simp at h1; omega
            have := hU0 htar h2 t (by omega) (by omega)
            rw [hoff] at this; exact Bool.noConfusion this
          · have htar : 0 < p.tar := by
              rw [initSt_fst] at h1; simpa using h1.symm
            have hk' : k = p.tar + t := by
              rw [initSt_snd_tar p htar] at hk; exact hk
            have := hUi htar t (by omega) (by omega)
            rw [hoff] at this; exact Bool.noConfusion this
        | false =>
          simp [thr] at hlt
          have hon : on t = true := by cases h : on t <;> simp_all
          rcases horig with ⟨s, hs0, hsk, h1, h2⟩ | ⟨ht0, hk, h1, h2⟩ | ⟨h1, hk, hall⟩
          · have := hD1 s hs0 (by omega) h1 (by simpa using h2) k hlt (by omega)
            rw [hsk, hon] at this; exact Bool.noConfusion this
          · have htar : 0 < p.tar := by
              rw [initSt_fst] at h1; simpa using h1
            have htao : p.tao = 0 := by
              have := hg; unfold Guard at this; omega
            have := hD0 htao h2 t (by omega) (by omega)
            rw [hon] at this; exact Bool.noConfusion this
          · have htar : ¬ 0 < p.tar := by
              rw [initSt_fst] at h1; simpa using h1.symm
            by_cases htao : 0 < p.tao
            · have hk' : k = p.tao + t := by
                rw [initSt_snd_tao p htar htao] at hk; exact hk
              have := hDi htao t (by omega) (by omega)
              rw [hon] at this; exact Bool.noConfusion this
            · have hk' : k = p.D + t := by
                rw [initSt_snd_none p htar htao] at hk; exact hk
              omega
      refine ⟨on t, 1, ?_, by simp, ?_⟩
      · simp [st, hst, step, hv, hthr]
      · by_cases ht0 : t = 0
        · subst ht0
          refine Or.inr (Or.inl ⟨by omega, rfl, ?_, rfl⟩)
          -- at time 0 the state is the initial one
          have : c = (initSt p).1 := by
            simp [st] at hst; exact (congrArg Prod.fst hst).symm
          rw [← this]; cases c <;> cases h : on 0 <;> simp_all
        · refine Or.inl ⟨t, by omega, rfl, rfl, ?_⟩
          have := hprev (by omega)
          rw [this]; cases c <;> cases h : on t <;> simp_all

theorem spec_imp_accepts (p : UC) (on : Nat → Bool) (hg : Guard p) (hs : Spec p on) : accepts p on := by
  obtain ⟨c, k, h, _⟩ := spec_imp_inv p on hg hs p.T (Nat.le_refl _)
  simp [accepts, h]

theorem spec_iff_automaton (p : UC) (on : Nat → Bool) (hg : Guard p) (hx : 1 < p.D → (0 < p.tar ∨ 0 < p.tao)) :
    Spec p on ↔ accepts p on :=
  ⟨spec_imp_accepts p on hg, accepts_imp_spec p on hg hx⟩

#print axioms spec_iff_automaton
