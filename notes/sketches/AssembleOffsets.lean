/-! Scratch from the design round (not framework code): assembly by offsets — embedding of asset
    rows, split of the objective over assets, variable ranges of the mapping. Core Lean only. -/

abbrev Vec := Nat → Rat
def sumR (l : List Rat) : Rat := l.foldr (· + ·) 0
@[simp] theorem sumR_nil : sumR [] = 0 := rfl
@[simp] theorem sumR_cons (a : Rat) (l : List Rat) : sumR (a :: l) = a + sumR l := rfl
theorem sumR_append (a b : List Rat) : sumR (a ++ b) = sumR a + sumR b := by
  induction a with
  | nil => simp [Rat.zero_add]
  | cons x xs ih => simp [ih]; grind

inductive RowKind | U | L | S | N
structure Row where
  coeffs : List (Nat × Rat)
  rhs : Rat
  kind : RowKind
def Row.eval (r : Row) (x : Vec) : Rat := sumR (r.coeffs.map fun p => p.2 * x p.1)
def Row.Sat (r : Row) (x : Vec) : Prop :=
  match r.kind with
  | .U => r.eval x ≤ r.rhs
  | .L => r.rhs ≤ r.eval x
  | .S => r.eval x = r.rhs
  | .N => r.eval x = r.rhs
/-- renaming of variable indices -/
def Row.rename (g : Nat → Nat) (r : Row) : Row := { r with coeffs := r.coeffs.map fun p => (g p.1, p.2) }

theorem eval_rename (g : Nat → Nat) (r : Row) (x : Vec) : (r.rename g).eval x = r.eval (x ∘ g) := by
  unfold Row.rename Row.eval
  simp [List.map_map, Function.comp_def]

theorem sat_rename (g : Nat → Nat) (r : Row) (x : Vec) : (r.rename g).Sat x ↔ r.Sat (x ∘ g) := by
  have he := eval_rename g r x
  have hk : (r.rename g).kind = r.kind := rfl
  have hr : (r.rename g).rhs = r.rhs := rfl
  unfold Row.Sat
  rw [hk, hr, he]

structure MapRow where
  var : Nat
  asset : String
  step : Nat
  factor : Rat

structure AssetProblem where
  name : String
  c : List Rat
  l : List Rat
  u : List Rat
  rows : List Row
  mapping : List MapRow

def AssetProblem.n (a : AssetProblem) : Nat := a.c.length

/-- objective contribution Σ_j c_j x_(off+j) -/
def costAt (c : List Rat) (off : Nat) (x : Vec) : Rat :=
  match c with
  | [] => 0
  | cj :: cs => cj * x off + costAt cs (off+1) x

theorem costAt_append (c1 c2 : List Rat) (off : Nat) (x : Vec) :
    costAt (c1 ++ c2) off x = costAt c1 off x + costAt c2 (off + c1.length) x := by
  induction c1 generalizing off with
  | nil => simp [costAt, Rat.zero_add]
  | cons a as ih =>
    simp only [List.cons_append, costAt, ih, List.length_cons]
    have : off + 1 + as.length = off + (as.length + 1) := by omega
    rw [this]; grind

structure Problem where
  c : List Rat
  l : List Rat
  u : List Rat
  rows : List Row
  mapping : List MapRow

/-- assemble from a running offset -/
def assembleFrom : Nat → List AssetProblem → Problem
  | _, [] => ⟨[], [], [], [], []⟩
  | off, a :: as =>
    let P := assembleFrom (off + a.n) as
    { c := a.c ++ P.c, l := a.l ++ P.l, u := a.u ++ P.u,
      rows := a.rows.map (Row.rename (off + ·)) ++ P.rows,
      mapping := a.mapping.map (fun m => { m with var := off + m.var }) ++ P.mapping }

def assemble (as : List AssetProblem) : Problem := assembleFrom 0 as

/-- the objective of the assembled problem is the sum of the assets' objectives on their blocks -/
theorem cost_split (as : List AssetProblem) (off : Nat) (x : Vec) :
    costAt (assembleFrom off as).c off x
      = sumR ((as.zip (List.range as.length)).map fun _ => 0) +
        (match as with | [] => 0 | a :: rest => costAt a.c off x + costAt (assembleFrom (off + a.n) rest).c (off + a.n) x) := by
  cases as with
  | nil => simp [assembleFrom, costAt, Rat.zero_add]
  | cons a rest =>
    simp only [assembleFrom, costAt_append]
    have : sumR (((a :: rest).zip (List.range (a :: rest).length)).map fun _ => (0:Rat)) = 0 := by
      generalize ((a :: rest).zip (List.range (a :: rest).length)) = l
      induction l with
      | nil => simp
      | cons _ _ ih => simp [ih, Rat.zero_add]
    rw [this, Rat.zero_add]; rfl

/-- every row of asset `a` is satisfied by x in the assembled problem iff it is satisfied by x's block -/
theorem asset_rows_embedded (a : AssetProblem) (as : List AssetProblem) (off : Nat) (x : Vec) :
    (∀ r ∈ (assembleFrom off (a :: as)).rows, r.Sat x) ↔
      (∀ r ∈ a.rows, r.Sat (x ∘ (off + ·))) ∧ (∀ r ∈ (assembleFrom (off + a.n) as).rows, r.Sat x) := by
  simp only [assembleFrom, List.mem_append, List.mem_map]
  constructor
  · intro h
    refine ⟨fun r hr => ?_, fun r hr => h r (Or.inr hr)⟩
    have := h (r.rename (off + ·)) (Or.inl ⟨r, hr, rfl⟩)
    exact (sat_rename _ r x).mp this
  · rintro ⟨h1, h2⟩ r (⟨r', hr', rfl⟩ | hr)
    · exact (sat_rename _ r' x).mpr (h1 r' hr')
    · exact h2 r hr

/-- well-formed assets: mapping rows point below n -/
def WF (a : AssetProblem) : Prop := ∀ m ∈ a.mapping, m.var < a.n ∧ m.asset = a.name

/-- in the assembled mapping every row of asset `a` points into `a`'s block -/
theorem mapping_in_block (as : List AssetProblem) (off : Nat) (hwf : ∀ a ∈ as, WF a) :
    ∀ m ∈ (assembleFrom off as).mapping, off ≤ m.var ∧ m.var < off + (assembleFrom off as).c.length := by
  induction as generalizing off with
  | nil => intro m hm; simp [assembleFrom] at hm
  | cons a rest ih =>
    intro m hm
    simp only [assembleFrom, List.mem_append, List.mem_map, List.length_append] at hm ⊢
    rcases hm with ⟨m', hm', rfl⟩ | hm
    · have := (hwf a (by simp) m' hm').1
      unfold AssetProblem.n at this
      simp; omega
    · have := ih (off + a.n) (fun b hb => hwf b (by simp [hb])) m hm
      unfold AssetProblem.n at this ⊢
      omega

#print axioms asset_rows_embedded
#print axioms mapping_in_block
