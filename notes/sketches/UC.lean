/-! Scratch proof from the design round (not framework code): rows of the unit-commitment
    formulation in Boolean form  ⇔  run-length specification.  Core Lean only. -/

structure UC where
  T : Nat
  R : Nat
  D : Nat
  tar : Nat
  tao : Nat

/-- the start-definition, min-runtime and min-downtime rows and initial-state bounds, Boolean reading -/
def Rows (p : UC) (on start : Nat → Bool) : Prop :=
  (∀ t, t + 1 < p.T → on (t+1) = true → on t = false → start (t+1) = true) ∧
  (p.tar = 0 → start 0 = on 0) ∧
  (∀ t, t < p.T → ∀ i, 1 ≤ i → i < p.R → i ≤ t → start (t - i) = true → on t = true) ∧
  (0 < p.tar → ∀ t, t < p.R - p.tar → t < p.T → on t = true) ∧
  (∀ t, t < p.T → ∀ i, 1 ≤ i → i < p.D → i < t →
      on t = true → on (t-i) = false → on (t-i-1) = true → False) ∧
  (∀ t, t < p.T → 1 ≤ t → t < p.D → p.tao = 0 → on t = true → on 0 = false → False) ∧
  (0 < p.tao → ∀ t, t < p.D - p.tao → t < p.T → on t = false)

def Spec (p : UC) (on : Nat → Bool) : Prop :=
  (∀ s, 0 < s → s < p.T → on s = true → on (s-1) = false → ∀ k, k < p.R → s + k < p.T → on (s+k) = true) ∧
  (p.tar = 0 → on 0 = true → ∀ k, k < p.R → k < p.T → on k = true) ∧
  (0 < p.tar → ∀ t, t < p.R - p.tar → t < p.T → on t = true) ∧
  (∀ s, 0 < s → s < p.T → on s = false → on (s-1) = true → ∀ k, k < p.D → s + k < p.T → on (s+k) = false) ∧
  (p.tao = 0 → on 0 = false → ∀ k, k < p.D → k < p.T → on k = false) ∧
  (0 < p.tao → ∀ t, t < p.D - p.tao → t < p.T → on t = false)

/-- the least admissible start flags: the switch-on indicator -/
def minStart (p : UC) (on : Nat → Bool) (t : Nat) : Bool :=
  if t = 0 then (decide (p.tar = 0) && on 0) else (on t && !on (t-1))

theorem rows_imp_spec (p : UC) (on start : Nat → Bool) (h : Rows p on start) : Spec p on := by
  obtain ⟨hS1, hS0, hR, hR0, hD, hD0, hDinit⟩ := h
  refine ⟨?_, ?_, hR0, ?_, ?_, hDinit⟩
  · intro s hs hsT hon hoff k hk hskT
    have hst : start s = true := by
      have := hS1 (s-1) (by omega) (by simpa [Nat.sub_add_cancel hs] using hon) hoff
      simpa [Nat.sub_add_cancel hs] using this
    by_cases hk0 : k = 0
    · subst hk0; simpa using hon
    · have := hR (s+k) hskT k (by omega) hk (by omega) (by simpa using hst)
      exact this
  · intro htar hon k hk hkT
    by_cases hk0 : k = 0
    · subst hk0; exact hon
    · have hst : start 0 = true := by rw [hS0 htar]; exact hon
      have := hR k hkT k (by omega) hk (by omega) (by simpa using hst)
      exact this
  · intro s hs hsT hoff hon k hk hskT
    by_cases hk0 : k = 0
    · subst hk0; simpa using hoff
    · cases hv : on (s+k) with
      | false => rfl
      | true =>
        exfalso
        have h1 : s + k - k = s := by omega
        exact hD (s+k) hskT k (by omega) hk (by omega) hv (by rw [h1]; exact hoff) (by rw [h1]; exact hon)
  · intro htao hoff k hk hkT
    by_cases hk0 : k = 0
    · subst hk0; exact hoff
    · cases hv : on k with
      | false => rfl
      | true => exact absurd (hD0 k hkT (by omega) hk htao hv hoff) id

theorem spec_imp_rows (p : UC) (on : Nat → Bool) (h : Spec p on) : Rows p on (minStart p on) := by
  obtain ⟨hU1, hU0, hUi, hD1, hD0, hDi⟩ := h
  refine ⟨?_, ?_, ?_, hUi, ?_, ?_, hDi⟩
  · intro t _ hon hoff
    simp [minStart, hon, hoff]
  · intro htar
    simp [minStart, htar]
  · intro t htT i hi hiR hit hst
    by_cases h0 : t - i = 0
    · have hti : t = i := by omega
      subst hti
      simp [minStart, h0] at hst
      exact hU0 hst.1 hst.2 t hiR htT
    · simp [minStart, h0] at hst
      have := hU1 (t-i) (by omega) (by omega) hst.1 hst.2 i hiR (by omega)
      have h1 : t - i + i = t := by omega
      rw [h1] at this; exact this
  · intro t htT i hi hiD hit hon hoff hon'
    have := hD1 (t-i) (by omega) (by omega) hoff hon' i hiD (by omega)
    have h1 : t - i + i = t := by omega
    rw [h1] at this
    rw [hon] at this; exact Bool.noConfusion this
  · intro t htT ht1 htD htao hon hoff
    have := hD0 htao hoff t htD htT
    rw [hon] at this; exact Bool.noConfusion this

theorem commit_rows_iff_spec (p : UC) (on : Nat → Bool) :
    (∃ start, Rows p on start) ↔ Spec p on :=
  ⟨fun ⟨s, h⟩ => rows_imp_spec p on s h, fun h => ⟨minStart p on, spec_imp_rows p on h⟩⟩

#print axioms commit_rows_iff_spec
