/-! Scratch proof from the design round (not framework code): core of nodal balance (C01). Core Lean only. -/

abbrev Vec := Nat → Rat

inductive VarKind | d | i | size
deriving DecidableEq, Repr

structure MapRow where
  var : Nat
  asset : String
  node : Option String
  kind : VarKind
  step : Nat
  factor : Rat
deriving Repr

def sumR (l : List Rat) : Rat := l.foldr (· + ·) 0

@[simp] theorem sumR_nil : sumR [] = 0 := rfl
@[simp] theorem sumR_cons (a : Rat) (l : List Rat) : sumR (a :: l) = a + sumR l := rfl
theorem sumR_append (a b : List Rat) : sumR (a ++ b) = sumR a + sumR b := by
  induction a with
  | nil => simp [Rat.zero_add]
  | cons x xs ih => simp [ih]; grind

/-- contribution of a mapping row -/
def MapRow.contrib (r : MapRow) (x : Vec) : Rat := x r.var * r.factor

def isDisp (n : String) (t : Nat) (r : MapRow) : Bool :=
  r.kind == .d && r.node == some n && r.step == t

/-- value of the nodal row for (n,t): all dispatch rows at that node and step -/
def nodalEval (M : List MapRow) (n : String) (t : Nat) (x : Vec) : Rat :=
  sumR ((M.filter (isDisp n t)).map (·.contrib x))

/-- dispatch output of asset `a` at (n,t) as io.extract_output computes it -/
def dispatchOut (M : List MapRow) (a : String) (n : String) (t : Nat) (x : Vec) : Rat :=
  sumR ((M.filter (fun r => r.asset == a && isDisp n t r)).map (·.contrib x))

/-- key lemma: summing per-asset filters over a duplicate-free list of names that covers all rows -/
theorem sum_by_asset (names : List String) (hnd : names.Nodup) (M : List MapRow)
    (hcov : ∀ r ∈ M, r.asset ∈ names) (f : MapRow → Rat) :
    sumR (names.map fun a => sumR ((M.filter (fun r => r.asset == a)).map f)) = sumR (M.map f) := by
  induction M with
  | nil =>
    simp
    induction names with
    | nil => simp
    | cons a as ih =>
      have := ih (List.nodup_cons.mp hnd).2 (by simp)
      simp [Rat.zero_add]; simpa using this
  | cons m M ih =>
    have hm : m.asset ∈ names := hcov m (by simp)
    have ih' := ih (fun r hr => hcov r (by simp [hr]))
    simp only [List.map_cons, sumR_cons]
    rw [← ih']
    -- split off the contribution of m
    clear ih ih' hcov
    induction names with
    | nil => simp at hm
    | cons a as iha =>
      have hnd' := (List.nodup_cons.mp hnd)
      simp only [List.map_cons, sumR_cons, List.filter_cons]
      by_cases h : m.asset = a
      · subst h
        have hnot : m.asset ∉ as := hnd'.1
        -- for the rest of names m never matches
        have rest : sumR (as.map fun a => sumR ((List.filter (fun r => r.asset == a) (m :: M)).map f))
                  = sumR (as.map fun a => sumR ((List.filter (fun r => r.asset == a) M).map f)) := by
          congr 1
          apply List.map_congr_left
          intro a' ha'
          have : (m.asset == a') = false := by
            simp; intro h; exact hnot (h ▸ ha')
          simp [List.filter_cons, this]
        simp only [List.filter_cons] at rest
        simp [rest]
        grind
      · have hm' : m.asset ∈ as := by
          cases hm with
          | head => exact absurd rfl h
          | tail _ h' => exact h'
        have := iha hnd'.2 hm'
        have hne : (m.asset == a) = false := by simp [h]
        simp [hne]
        simp only [List.filter_cons] at this
        grind

theorem nodal_balance_core (names : List String) (hnd : names.Nodup) (M : List MapRow)
    (hcov : ∀ r ∈ M, r.asset ∈ names) (n : String) (t : Nat) (x : Vec) :
    sumR (names.map fun a => dispatchOut M a n t x) = nodalEval M n t x := by
  unfold dispatchOut nodalEval
  have := sum_by_asset names hnd (M.filter (isDisp n t))
    (fun r hr => hcov r (List.mem_filter.mp hr).1) (·.contrib x)
  rw [← this]
  congr 1
  apply List.map_congr_left
  intro a _
  congr 2
  rw [List.filter_filter]

#print axioms nodal_balance_core
