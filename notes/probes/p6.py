import numpy as np, pandas as pd, datetime as dt, warnings, traceback
warnings.filterwarnings('ignore')
import eaopack as eao
from eaopack.assets import *
from eaopack.portfolio import Portfolio, StructuredAsset
def hdr(s): print('\n=====', s)
S = dt.datetime
n1, n2 = Node('N1'), Node('N2')

hdr('P6a anchored freq grids')
for (s,e,f) in [(S(2021,1,15),S(2021,4,1),'MS'), (S(2021,1,6),S(2021,2,1),'W'), (S(2021,1,1,6),S(2021,1,5),'d'), (S(2021,1,1),S(2021,1,1,10,30),'h'), (S(2021,1,1,0,20),S(2021,1,1,5),'h')]:
    tg = Timegrid(s,e,freq=f)
    print(f, 'start', tg.start, 'first pt', tg.timepoints[0] if tg.T else None, 'T', tg.T, 'dt', tg.dt[:4], 'sum dt', tg.dt.sum(), 'true h', (e-s)/dt.timedelta(hours=1))
hdr('P6b DST')
tg = Timegrid(S(2021,3,27), S(2021,3,30), freq='d', timezone='CET'); print(tg.dt, tg.timepoints)
tg = Timegrid(S(2021,10,30), S(2021,11,2), freq='d', timezone='CET', main_time_unit='d'); print(tg.dt)
tg = Timegrid(S(2021,3,28), S(2021,3,28,6), freq='h', timezone='CET'); print(tg.T, tg.dt, tg.timepoints)

hdr('P6c coarse restricted grid, unaligned window')
tg = Timegrid(S(2021,1,1), S(2021,1,2,12), freq='h')
for (s,e,f) in [(None,None,'d'), (S(2021,1,1,6), None, 'd'), (S(2021,1,1,6), S(2021,1,2,6), '4h'), (None,None,'5h')]:
    try:
        tg.set_restricted_grid(s,e,f); r = tg.restricted
        cov = sorted(np.concatenate(r.I_minor_in_major).tolist()) if r.T else []
        inwin = tg.I[(tg.timepoints>= (pd.Timestamp(s) if s else tg.start)) & (tg.timepoints < (pd.Timestamp(e) if e else tg.end))]
        print(f, s, e, 'T', r.T, 'dt', r.dt, 'covered', len(cov), 'of', len(inwin), 'in window')
    except Exception as ex: print(f, s, e, 'EXC', type(ex).__name__, str(ex)[:100])

hdr('P6d coarse freq asset with two variables per step')
tg = Timegrid(S(2021,1,1), S(2021,1,3), freq='h')
pr = {'p': np.sin(np.arange(48.))}
for kw in [dict(extra_costs=0.), dict(extra_costs=0.5)]:
    a = SimpleContract(name='a', nodes=n1, price='p', min_cap=-1, max_cap=1, freq='d', **kw)
    try:
        op = a.setup_optim_problem(pr, tg); print(kw, 'ok nvars', len(op.c), 'rows', len(op.mapping))
    except Exception as ex: print(kw, 'EXC', type(ex).__name__, str(ex)[:100])
for kw in [dict(), dict(eff_in=0.9)]:
    st = Storage('st', nodes=n1, size=40, cap_in=1, cap_out=1, freq='4h', **kw)
    try:
        op = st.setup_optim_problem(pr, tg); print(kw, 'ok nvars', len(op.c), 'rows', len(op.mapping))
    except Exception as ex: print(kw, 'EXC', type(ex).__name__, str(ex)[:100])

hdr('P6e coarse weights on DST day (freq d, grid h)')
tgz = Timegrid(S(2021,3,27), S(2021,3,30), freq='h', timezone='CET')
a = SimpleContract(name='a', nodes=n1, price='p', min_cap=-1, max_cap=1, freq='d')
op = a.setup_optim_problem({'p': np.ones(tgz.T)}, tgz)
m = op.mapping
print('u', op.u, ' factors per var sum:', m.groupby(m.index).disp_factor.sum().values, 'rows per var', m.groupby(m.index).size().values)

hdr('P6f periodic standalone with duration')
tg = Timegrid(S(2021,1,1), S(2021,1,5), freq='12h')
a = SimpleContract(name='a', nodes=n1, price='p', min_cap=-1, max_cap=1, periodicity='d', periodicity_duration='2d')
pr = {'p': np.array([1,5,2,6,3,7,4,8.])}
op = a.setup_optim_problem(pr, tg)
print('nvars', len(op.c), 'mapping index', op.mapping.index.tolist(), 'c', op.c)
try:
    r = op.optimize(); print('value', r.value, 'dcf', a.dcf(op, r))
except Exception as ex: print('EXC', type(ex).__name__, str(ex)[:100])
pf = Portfolio([a, SimpleContract(name='b', nodes=n1, min_cap=-10, max_cap=10)])
op = pf.setup_optim_problem(pr, tg); r = op.optimize(); print('portfolio value', r.value, 'idx', op.mapping.index.tolist())
out = eao.io.extract_output(pf, op, r); print(out['dispatch'].round(3).T.to_string()); print('DCF sum', out['DCF'].sum().sum())
