import numpy as np, pandas as pd, datetime as dt, warnings, io, contextlib
warnings.filterwarnings('ignore')
import eaopack as eao
from eaopack.assets import *
from eaopack.portfolio import Portfolio, StructuredAsset
S = dt.datetime
n1, n2, n3 = Node('N1'), Node('N2'), Node('Y')
tg = Timegrid(S(2021,1,1), S(2021,1,1,8), freq='h')
rng = np.random.default_rng(11)
pr = {'p': rng.integers(1,20,8)*1., 'q': rng.integers(1,20,8)*1.}
def val(assets):
    with contextlib.redirect_stdout(io.StringIO()):
        pf = Portfolio(assets); op = pf.setup_optim_problem(pr, tg); r = op.optimize(solver='SCIPY')
    return r.value
mk = lambda: SimpleContract(name='mk', nodes=n1, price='p', min_cap=-20, max_cap=20)
print('--- scaled fixed s=3, norm 2: vs base with params * 1.5')
s, norm, fc = 3., 2., 0.25
k = s/norm
base = Storage('s', nodes=n1, size=4, cap_in=1, cap_out=1.5, start_level=1, end_level=2, inflow=0.125, eff_in=0.75, cost_store=0.125, cost_in=0.25)
sc = ScaledAsset(name='sc', base_asset=base, min_scale=s, max_scale=s, norm_scale=norm, fix_costs=fc)
ref = Storage('s', nodes=n1, size=4*k, cap_in=1*k, cap_out=1.5*k, start_level=1*k, end_level=2*k, inflow=0.125*k, eff_in=0.75, cost_store=0.125, cost_in=0.25)
print(val([sc, mk()]), val([ref, mk()]) - s*fc*tg.dt.sum())
base = Contract(name='c', nodes=n1, price='q', min_cap=-1, max_cap=2, extra_costs=0.5, max_take={'start':S(2021,1,1),'end':S(2021,1,1,8),'values':6.})
sc = ScaledAsset(name='sc', base_asset=base, min_scale=s, max_scale=s, norm_scale=norm, fix_costs=fc)
ref = Contract(name='c', nodes=n1, price='q', min_cap=-1*k, max_cap=2*k, extra_costs=0.5, max_take={'start':S(2021,1,1),'end':S(2021,1,1,8),'values':6.*k})
print(val([sc, mk()]), val([ref, mk()]) - s*fc*tg.dt.sum())
print('--- structured vs flat')
def inner():
    return [SimpleContract(name='i1', nodes=n1, price='q', min_cap=-5,max_cap=5, extra_costs=0.25), Transport(name='itr', nodes=[n1,n3], min_cap=0, max_cap=2, efficiency=0.5), Storage('ist', nodes=n3, size=3, cap_in=1, cap_out=1), SimpleContract(name='i2', nodes=n3, price='p', min_cap=-5,max_cap=0)]
sa = StructuredAsset(name='SA', nodes=[n1], portfolio=Portfolio(inner()))
print(val([sa, mk()]), val(inner()+[mk()]))
