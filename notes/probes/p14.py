import numpy as np, pandas as pd, datetime as dt, warnings, io, contextlib
warnings.filterwarnings('ignore')
import eaopack as eao
from eaopack.assets import *
from eaopack.portfolio import Portfolio
S = dt.datetime
n1, n2 = Node('N1'), Node('N2')
tg = Timegrid(S(2021,1,1), S(2021,1,1,12), freq='h')
rng = np.random.default_rng(5)
pr = {'p': -rng.integers(1,30,12)*1., 'g': np.ones(12)*1.5, 'm': rng.integers(1,30,12)*1.}
with contextlib.redirect_stdout(io.StringIO()):
    pl = Plant(name='pl', nodes=[n1], min_cap=1.3, max_cap=3.7, ramp=1.1, min_runtime=3, start_costs=2.3, running_costs=0.31, price=None)
    mk = SimpleContract(name='mk', nodes=n1, price='m', min_cap=-10, max_cap=10)
    st = Storage('st', nodes=n1, size=3, cap_in=1, cap_out=1, eff_in=0.9, no_simult_in_out=True)
    pf = Portfolio([pl, mk, st])
    op = pf.setup_optim_problem(pr, tg); r = op.optimize()
    m = op.mapping; bl = m.index[m['bool']==True].unique()
    mask = np.array([True]*5+[False]*7)
    op2 = pf.setup_optim_problem(pr, tg, fix_time_window={'I': mask, 'x': r.x.copy()}); r2 = op2.optimize()
print('bool values', r.x[bl][:12])
print('value', r.value, r2 if isinstance(r2,str) else r2.value)
print('nonint dev', np.abs(r.x[bl]-np.round(r.x[bl])).max())
