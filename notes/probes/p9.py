import numpy as np, pandas as pd, datetime as dt, warnings, io, contextlib
from copy import deepcopy
warnings.filterwarnings('ignore')
import eaopack as eao
from eaopack.assets import *
from eaopack.portfolio import Portfolio, StructuredAsset
def hdr(s): print('\n=====', s)
S = dt.datetime
n1, n2 = Node('N1'), Node('N2')
tg = Timegrid(S(2021,1,1), S(2021,1,1,6), freq='h')
T = tg.T
pr = {'p': np.array([1,5,2,6,3,7.]), 'q': np.array([4,4,4,4,4,4.])}

hdr('C18 nodal price sign')
a = SimpleContract(name='a', nodes=n1, price='p', min_cap=-2, max_cap=2)
b = SimpleContract(name='b', nodes=n2, price='q', min_cap=-1, max_cap=3, extra_costs=0.5)
tr = Transport(name='tr', nodes=[n1,n2], min_cap=0, max_cap=1, efficiency=0.5)
st = Storage('st', nodes=n1, size=2, cap_in=1, cap_out=1)
pf = Portfolio([a,b,tr,st])
op = pf.setup_optim_problem(pr, tg); r = op.optimize(solver='SCIPY')
out = eao.io.extract_output(pf, op, r)
P = out['prices']; print(P.round(4).T.to_string())
# perturb: injection d at node N1 step 2:  sum disp + d = 0  <=> row.x = -d
def perturbed(node, step, d):
    op2 = pf.setup_optim_problem(pr, tg)
    k = [i for i,(t,n) in enumerate(op2.map_nodal_restr) if t==step and n==node][0]
    rowsN = [i for i,c in enumerate(op2.cType) if c=='N']
    op2.b[rowsN[k]] = -d
    return op2.optimize(solver='SCIPY').value
for node in ['N1','N2']:
  for step in [0,2,5]:
    price = P.loc[tg.timepoints[step], 'nodal price: '+node]
    for d in [0.25,-0.25]:
        v = perturbed(node, step, d)
        print(node, step, d, 'V(d)-V', round(v-r.value,6), 'price*d', round(price*d,6), 'supergradient ok' , v <= r.value + price*d + 1e-6)

hdr('C17 SLP with transport in portfolio (dup rows)')
try:
    op = pf.setup_optim_problem(pr, tg)
    pr2 = {'p': pr['p'][::-1].copy(), 'q': pr['q']}
    with contextlib.redirect_stdout(io.StringIO()):
        ops = eao.stoch_lin_prog.make_slp(portf=pf, optim_problem=deepcopy(op), timegrid=tg, start_future=S(2021,1,1,3), samples=[pr2, pr])
    rs = ops.optimize(solver='SCIPY'); print('slp value', rs.value, 'nvars', len(ops.c))
except Exception as e: print('EXC', type(e).__name__, str(e)[:200])
hdr('C17 SLP without dup rows')
pf3 = Portfolio([a, st, SimpleContract(name='b1', nodes=n1, price='q', min_cap=-1, max_cap=3, extra_costs=0.5)])
op = pf3.setup_optim_problem(pr, tg); r0 = op.optimize(solver='SCIPY')
ops = eao.stoch_lin_prog.make_slp(portf=pf3, optim_problem=deepcopy(op), timegrid=tg, start_future=S(2021,1,1,3), samples=[pr2, pr])
rs = ops.optimize(solver='SCIPY'); print('det', r0.value, 'slp value', rs.value, 'nvars', len(op.c), len(ops.c))
r2 = pf3.setup_optim_problem(pr2, tg).optimize(solver='SCIPY'); print('scenario optima', r0.value, r2.value, 'mean (1 x pr2, 2 x pr)/3', (2*r0.value + r2.value)/3)

hdr('C16 scaled contract (no A) / scaled storage')
for base in [SimpleContract(name='b', nodes=n1, price='p', min_cap=-2, max_cap=2), Storage('s', nodes=n1, size=2, cap_in=1, cap_out=1, start_level=1, end_level=1, inflow=0.1), Transport(name='t', nodes=[n1,n2], min_cap=0, max_cap=1, efficiency=0.5)]:
    try:
        sc = ScaledAsset(name='sc', base_asset=base, min_scale=0, max_scale=4, norm_scale=2, fix_costs=0.25)
        mk = SimpleContract(name='mk', nodes=n1, price='p', min_cap=-20, max_cap=20)
        mk2 = SimpleContract(name='mk2', nodes=n2, price='q', min_cap=-20, max_cap=20)
        pfs = Portfolio([sc, mk, mk2]); ops_ = pfs.setup_optim_problem(pr, tg); rs_ = ops_.optimize(solver='SCIPY')
        print(type(base).__name__, 'value', rs_.value, 'scale', rs_.x[ops_.mapping.index[ops_.mapping.var_name=='scale'][0]])
    except Exception as e: print(type(base).__name__, 'EXC', type(e).__name__, str(e)[:200])
