import numpy as np, pandas as pd, datetime as dt, warnings, traceback
warnings.filterwarnings('ignore')
import eaopack as eao
from eaopack.assets import *
from eaopack.portfolio import Portfolio, StructuredAsset
def hdr(s): print('\n=====', s)
S = dt.datetime
n1, n2 = Node('N1'), Node('N2')
def opsig(op):
    A = None if op.A is None else np.round(op.A.toarray(),9).tolist()
    return (np.round(op.c,9).tolist(), np.round(op.l,9).tolist(), np.round(op.u,9).tolist(), A, None if op.b is None else np.round(op.b,9).tolist(), op.cType)

hdr('P4a interval dict reused across tz grids')
cap = {'start':[S(2021,1,1), S(2021,1,1,6)], 'end':[S(2021,1,1,6), S(2021,1,2)], 'values':[1.,2.]}
a = SimpleContract(name='a', nodes=n1, price='p', min_cap=0, max_cap=cap)
tg1 = Timegrid(S(2021,1,1), S(2021,1,2), freq='h', timezone='CET')
tg2 = Timegrid(S(2021,1,1), S(2021,1,2), freq='h')
pr = {'p': np.arange(24.)}
for order in [(tg2,tg1,tg2),]:
    for g in order:
        try:
            op = a.setup_optim_problem(pr, g); print('tz', g.tz, 'ok u[:8]', op.u[:8], type(cap['start']))
        except Exception as e: print('tz', g.tz, 'EXC', type(e).__name__, str(e)[:100])
hdr('P4a2 single-start dict (no end), different grids')
cap = {'start':[S(2021,1,1), S(2021,1,1,6)], 'values':[1.,2.]}
a = SimpleContract(name='a', nodes=n1, price='p', min_cap=0, max_cap=cap)
tgs=Timegrid(S(2021,1,1), S(2021,1,1,12), freq='h'); op = a.setup_optim_problem({'p':np.arange(12.)}, tgs); print(op.u[:12], cap.get('end'))
hdr('P4b contract with timegrid set beforehand (timegrid=None)')
c = Contract(name='c', nodes=n1, price='p', min_cap=0, max_cap=1, min_take={'start':S(2021,1,1),'end':S(2021,1,2),'values':3})
try:
    c.set_timegrid(tg2); op = c.setup_optim_problem(pr); print('ok')
except Exception as e: print('EXC', type(e).__name__, str(e)[:100])
sc = SimpleContract(name='c', nodes=n1, min_cap=0, max_cap=1)
try:
    sc.set_timegrid(tg2); op = sc.setup_optim_problem(pr); print('ok')
except Exception as e: print('EXC', type(e).__name__, str(e)[:100])

hdr('P4c shared timegrid: asset A set up, then B, then A.dcf/ make_vector uses stale restricted?')
tg = Timegrid(S(2021,1,1), S(2021,1,2), freq='h')
a = SimpleContract(name='a', nodes=n1, price='p', min_cap=-1, max_cap=1, start=S(2021,1,1,3), end=S(2021,1,1,9))
b = SimpleContract(name='b', nodes=n1, price='p', min_cap=-1, max_cap=1, wacc=0.5)
opa1 = opsig(a.setup_optim_problem(pr, tg))
opb  = b.setup_optim_problem(pr, tg)
a.set_timegrid(tg)  # as portfolio does? 
opa2 = opsig(a.setup_optim_problem(pr))   # timegrid=None -> uses self.timegrid whose restricted was overwritten by b?
print('same?', opa1==opa2)
a2 = SimpleContract(name='a', nodes=n1, price='p', min_cap=-1, max_cap=1, start=S(2021,1,1,3), end=S(2021,1,1,9))
a2.set_timegrid(tg); b.set_timegrid(tg)
try:
    o = a2.setup_optim_problem(pr); print('len c after b.set_timegrid on shared grid:', len(o.c), 'expected 6')
except Exception as e: print('EXC', type(e).__name__, str(e)[:100])

hdr('P4d structured asset clips inner start/end; None not clipped')
tg = Timegrid(S(2021,1,1), S(2021,1,2), freq='h')
inner = SimpleContract(name='in', nodes=n1, price='p', min_cap=-1, max_cap=1)
sa = StructuredAsset(name='SA', nodes=n1, portfolio=Portfolio([inner]), start=S(2021,1,1,6), end=S(2021,1,1,12))
mk = SimpleContract(name='mkt', nodes=n1, price='q', min_cap=-10, max_cap=10)
pf = Portfolio([sa, mk])
pr2 = {'p': np.arange(24.), 'q': np.ones(24)*12}
op = pf.setup_optim_problem(pr2, tg); r = op.optimize()
out = eao.io.extract_output(pf, op, r)
print('SA dispatch nonzero steps:', np.where(out['dispatch'].iloc[:,0].abs()>1e-6)[0])
inner2 = SimpleContract(name='in', nodes=n1, price='p', min_cap=-1, max_cap=1, start=S(2021,1,1,0), end=S(2021,1,2))
sa = StructuredAsset(name='SA', nodes=n1, portfolio=Portfolio([inner2]), start=S(2021,1,1,6), end=S(2021,1,1,12))
pf = Portfolio([sa, mk]); op = pf.setup_optim_problem(pr2, tg); r = op.optimize()
out = eao.io.extract_output(pf, op, r)
print('SA dispatch nonzero steps:', np.where(out['dispatch'].iloc[:,0].abs()>1e-6)[0], 'inner2.start now', inner2.start)
