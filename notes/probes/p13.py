import numpy as np, pandas as pd, datetime as dt, warnings, io, contextlib
warnings.filterwarnings('ignore')
import eaopack as eao
from eaopack.assets import *
from eaopack.portfolio import Portfolio
S = dt.datetime
n1 = Node('N1')
tg = Timegrid(S(2021,1,1), S(2021,1,1,6), freq='h')
for name, pr, kw in [
   ('up, running, on-vars', np.ones(6)*50, dict(min_cap=1, max_cap=10, ramp=1, time_already_running=5, last_dispatch=2)),
   ('up, running, no on-vars', np.ones(6)*50, dict(min_cap=0, max_cap=10, ramp=1, time_already_running=5, last_dispatch=2)),
   ('down, running, on-vars', -np.ones(6)*50, dict(min_cap=1, max_cap=10, ramp=1, time_already_running=5, last_dispatch=8, min_runtime=20)),
   ('down, running, no on-vars', -np.ones(6)*50, dict(min_cap=0, max_cap=10, ramp=1, time_already_running=5, last_dispatch=8)),
   ('off before, tar=0, last=0', np.ones(6)*50, dict(min_cap=1, max_cap=10, ramp=2, time_already_off=3, last_dispatch=0)),
   ]:
    with contextlib.redirect_stdout(io.StringIO()):
        pl = Plant(name='pl', nodes=[n1], price='p', **kw)
        op = pl.setup_optim_problem({'p': pr}, tg); r = op.optimize()
    if isinstance(r,str): print(name, r); continue
    print(name, 'disp', np.round(r.x[:6],3), 'on', np.round(r.x[pl.on_idx:pl.on_idx+6],1) if hasattr(pl,'on_idx') and len(r.x)>6 else None)
