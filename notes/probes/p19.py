import numpy as np, pandas as pd, datetime as dt, warnings, io, contextlib
warnings.filterwarnings('ignore')
import eaopack as eao
from eaopack.assets import *
from eaopack.portfolio import Portfolio
S = dt.datetime
n1 = Node('N1')
def hdr(s): print('\n=====', s)
hdr('DST totals: contract cap 2/h over 3 CET days incl. spring-forward, daily grid')
tg = Timegrid(S(2021,3,27), S(2021,3,30), freq='d', timezone='CET')
a = SimpleContract(name='a', nodes=n1, price='p', min_cap=0, max_cap=2)
op = a.setup_optim_problem({'p': -np.ones(tg.T)}, tg); print('u', op.u, 'sum', op.u.sum(), 'rate x elapsed', 2*71)
tgm = Timegrid(S(2021,1,1), S(2021,5,1), freq='MS'); op = a.setup_optim_problem({'p': -np.ones(tgm.T)}, tgm); print('months u', op.u, 'dt', tgm.dt)
hdr('prices_to_grid')
tg = Timegrid(S(2021,1,1), S(2021,1,1,6), freq='h', timezone='CET')
arr = {'p': np.array([1,5,2,6,3,7.]), 'q': [1,2,3,4,5,6]}
g = tg.prices_to_grid(arr); print(type(g), (g['p'].values==arr['p']).all(), g.index.equals(tg.timepoints))
df = pd.DataFrame({'p':[1.,3.]}, index=pd.to_datetime(['2021-01-01 00:00','2021-01-01 04:00']).tz_localize('CET'))
print(tg.prices_to_grid(df)['p'].values)
try:
    dfn = pd.DataFrame({'p':[1.,3.]}, index=pd.to_datetime(['2021-01-01 00:00','2021-01-01 04:00']))
    print(tg.prices_to_grid(dfn)['p'].values)
except Exception as e: print('naive df on tz grid: EXC', type(e).__name__, str(e)[:100])
hdr('DataFrame prices into portfolio (Series path)')
pf = Portfolio([SimpleContract(name='a', nodes=n1, price='p', min_cap=-1, max_cap=2, extra_costs=0.5, start=S(2021,1,1,2)), Storage('s', nodes=n1, size=2, cap_in=1, cap_out=1, price='p')])
try:
    op = pf.setup_optim_problem(g, tg); print('ok', len(op.c))
except Exception as e: print('EXC', type(e).__name__, str(e)[:100])
