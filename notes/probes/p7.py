import numpy as np, pandas as pd, datetime as dt, warnings, itertools, io, contextlib
warnings.filterwarnings('ignore')
import eaopack as eao
from eaopack.assets import *
from scipy.optimize import milp, LinearConstraint, Bounds
S = dt.datetime
n1 = Node('N1')
T = 6
tg = Timegrid(S(2021,1,1), S(2021,1,1,T), freq='h')
pr = {'p': np.ones(T)}

def feasible_with_on(op, on_idx, pattern):
    l = op.l.copy(); u = op.u.copy()
    for t,v in enumerate(pattern):
        if v < l[on_idx+t] or v > u[on_idx+t]: return False
        l[on_idx+t] = v; u[on_idx+t] = v
    A = op.A.toarray(); b = op.b
    lo = np.full(len(b), -np.inf); hi = np.full(len(b), np.inf)
    for i,ct in enumerate(op.cType):
        if ct=='U': hi[i]=b[i]
        elif ct=='L': lo[i]=b[i]
        else: lo[i]=hi[i]=b[i]
    m = op.mapping; m = m[~m.index.duplicated(keep='first')]
    integ = np.zeros(len(l)); 
    if 'bool' in m: integ[m.index[m['bool']==True]] = 1
    r = milp(c=np.zeros(len(l)), constraints=LinearConstraint(A, lo, hi), bounds=Bounds(l,u), integrality=integ)
    return r.status==0

def spec(pattern, minrun, mindown, tar, tao):
    # automaton: previous state from history
    # state: (on, k) k = time in state so far
    if tar>0: on, k = 1, tar
    else: on, k = 0, (tao if tao>0 else 10**6)  # unknown history off: assume long off
    for v in pattern:
        if v==on: k+=1
        else:
            need = minrun if on==1 else mindown
            if k < need: return False
            on, k = v, 1
    return True

res = {}
for minrun, mindown, tar, tao in itertools.product([0,2,3],[0,2,3],[0,1,2],[0,1,2]):
    if tar>0 and tao>0: continue
    if mindown>1 and not ((tao==0) ^ (tar==0)): continue
    with contextlib.redirect_stdout(io.StringIO()):
        a = Plant(name='pl', nodes=[n1], min_cap=1, max_cap=3, price='p', min_runtime=minrun, min_downtime=mindown, time_already_running=tar, time_already_off=tao)
        op = a.setup_optim_problem(pr, tg)
    diffs = []
    for pat in itertools.product([0,1], repeat=T):
        f = feasible_with_on(op, a.on_idx, pat); s = spec(pat, minrun, mindown, tar, tao)
        if f!=s: diffs.append((''.join(map(str,pat)), 'code' if f else 'spec'))
    print('minrun',minrun,'mindown',mindown,'tar',tar,'tao',tao,'-> mismatches', len(diffs), diffs[:6])
