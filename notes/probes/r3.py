import numpy as np, pandas as pd, datetime as dt, warnings, io, contextlib, sys, random, traceback
from copy import deepcopy
warnings.filterwarnings('ignore')
import eaopack as eao
from eaopack.assets import *
from eaopack.portfolio import Portfolio
S = dt.datetime
seed = int(sys.argv[1]) if len(sys.argv)>1 else 0
N = int(sys.argv[2]) if len(sys.argv)>2 else 30
R = random.Random(seed)
def q(lo,hi): return R.randint(int(lo*4),int(hi*4))/4
def solve(assets, tg, prices, solver=None, **kw):
    with contextlib.redirect_stdout(io.StringIO()):
        pf = Portfolio(assets); op = pf.setup_optim_problem(prices, tg, **kw); r = op.optimize(solver=solver) if solver else op.optimize()
        out = None if isinstance(r,str) else eao.io.extract_output(pf, op, r)
    return pf, op, r, out
viol = []; stats = {'c20':0,'c18':0,'c17':0,'c13':0,'c12':0}
for it in range(N):
    try:
        T = R.choice([8,12]); h = R.choice([1,2])
        start = S(2021,1,1)
        tg = Timegrid(start, start+dt.timedelta(hours=h*T), freq='%dh'%h)
        n1, n2 = Node('N1'), Node('N2')
        prices = {'p': np.array([q(1,20)+R.random()*1e-3 for _ in range(T)]), 'q': np.array([q(1,20)+R.random()*1e-3 for _ in range(T)])}
        mk1 = SimpleContract(name='mk1', nodes=n1, price='p', min_cap=-20, max_cap=20)
        mk2 = SimpleContract(name='mk2', nodes=n2, price='q', min_cap=-20, max_cap=20, extra_costs=0.25)
        tr = Transport(name='tr', nodes=[n1,n2], min_cap=0, max_cap=1, efficiency=0.5)
        st = Storage('st', nodes=n1, size=3, cap_in=1, cap_out=1, eff_in=0.75)
        # ---------- C20 order book semantics
        no = R.randint(1,4); os_=[];oe_=[];ca=[];pr=[]
        for _ in range(no):
            a = R.randint(-3,T-1); b = a + R.randint(1,6)
            os_.append(start+dt.timedelta(hours=h*a)); oe_.append(start+dt.timedelta(hours=h*b)); ca.append(R.choice([-2,-1,1,2])); pr.append(q(1,20))
        full = R.random()<0.3
        ob = OrderBook(name='ob', nodes=n1, orders=dict(start=os_, end=oe_, capa=ca, price=pr), full_exec=full, wacc=R.choice([0,0.5]))
        pf, op, r, out = solve([mk1, ob, mk2, tr, st], tg, prices)
        stats['c20']+=1
        sp = out['special']; fr = np.zeros(no); fr[sp['name'].values.astype(int)] = sp['value'].values.astype(float)
        if True:
            if (fr < -1e-6).any() or (fr > 1+1e-6).any() or (full and np.abs(fr-np.round(fr)).max()>1e-6): viol.append((it,'C20 fraction', fr))
            tp = tg.timepoints; exp = np.zeros(T); cash = 0.
            ob.set_timegrid(tg); df = tg.discount_factors
            for o in range(no):
                I = (tp>=os_[o])&(tp<oe_[o]); exp[I] += fr[o]*ca[o]*tg.dt[I]; cash += -fr[o]*ca[o]*pr[o]*(tg.dt[I]*df[I]).sum()
            col = [c for c in out['dispatch'].columns if c.startswith('ob')][0]
            if np.abs(out['dispatch'][col].values-exp).max()>1e-6: viol.append((it,'C20 delivery'))
            if abs(out['DCF']['ob'].sum()-cash)>1e-6*(1+abs(cash)): viol.append((it,'C20 cash', out['DCF']['ob'].sum(), cash))
        # ---------- C18 nodal prices (LP only)
        assets = [mk1, mk2, tr, st, Contract(name='ct', nodes=n2, price='p', min_cap=0, max_cap=2, extra_costs=0.5, max_take={'start':start,'end':start+dt.timedelta(hours=h*T),'values':q(2,8)})]
        pf, op, r, out = solve(assets, tg, prices, solver='SCIPY')
        P = out['prices']; rowsN = [i for i,c in enumerate(op.cType) if c=='N']
        for _ in range(4):
            k = R.randrange(len(op.map_nodal_restr)); t,n = op.map_nodal_restr[k]; d = R.choice([0.25,-0.25,1,-1])
            price = P.loc[tg.timepoints[t], 'nodal price: '+n]
            with contextlib.redirect_stdout(io.StringIO()):
                op2 = pf.setup_optim_problem(prices, tg); op2.b[rowsN[k]] = -d; r2 = op2.optimize(solver='SCIPY')
            stats['c18']+=1
            if not isinstance(r2,str) and r2.value > r.value + price*d + 1e-6*(1+abs(r.value)): viol.append((it,'C18', n, t, d, r2.value-r.value, price*d))
        # ---------- C17 SLP chain
        pr2 = {'p': prices['p'][::-1].copy(), 'q': prices['q'].copy()}; kfut = R.randint(2,T-2)
        pr2['p'][:kfut] = prices['p'][:kfut]; pr2['q'][:kfut] = prices['q'][:kfut]
        A17 = [mk1, mk2, tr, st]
        pf, op, r0, _ = solve(A17, tg, prices, solver='SCIPY'); _,_,r1,_ = solve(A17, tg, pr2, solver='SCIPY')
        with contextlib.redirect_stdout(io.StringIO()):
            ops = eao.stoch_lin_prog.make_slp(portf=pf, optim_problem=deepcopy(op), timegrid=tg, start_future=start+dt.timedelta(hours=h*kfut), samples=[pr2]); rs = ops.optimize(solver='SCIPY')
            # EEV: fix present to scenario-0 solution, evaluate both scenarios
            mask = np.array([True]*kfut+[False]*(T-kfut))
            ev = []
            for prs in (prices, pr2):
                opf = pf.setup_optim_problem(prs, tg, fix_time_window={'I': mask.copy(), 'x': r0.x.copy()}); rf = opf.optimize(solver='SCIPY'); ev.append(rf.value)
        stats['c17']+=1
        ws = (r0.value+r1.value)/2; eev = sum(ev)/2; tol = 1e-6*(1+abs(ws))
        if not (eev - tol <= rs.value <= ws + tol): viol.append((it,'C17 chain', eev, rs.value, ws))
        # ---------- C13 coarse = fine + equalities  (contract with spread, freq 2 steps)
        ec = R.choice([0,0.5]); cf = '%dh'%(2*h)
        coarse = SimpleContract(name='c', nodes=n1, price='q', min_cap=-1, max_cap=2, extra_costs=ec, freq=cf)
        pf, op, rc, outc = solve([mk1, coarse], tg, prices, solver='SCIPY')
        # fine problem with averaged prices and equalities
        qavg = prices['q'].reshape(-1,2).mean(axis=1).repeat(2); pr3 = dict(prices); pr3['qavg']=qavg
        fine = SimpleContract(name='c', nodes=n1, price='qavg', min_cap=-1, max_cap=2, extra_costs=ec)
        with contextlib.redirect_stdout(io.StringIO()):
            pff = Portfolio([mk1, fine]); opf = pff.setup_optim_problem(pr3, tg)
            import scipy.sparse as sp
            m = opf.mapping; rows=[]
            for vn in m[m.asset=='c'].var_name.unique():
                idx = m[(m.asset=='c')&(m.var_name==vn)].sort_values('time_step').index.values
                for j in range(0,len(idx),2):
                    a = sp.lil_matrix((1,len(opf.c))); a[0,idx[j]]=1; a[0,idx[j+1]]=-1; rows.append(a)
            opf.A = sp.vstack([opf.A]+rows); opf.b = np.hstack((opf.b, np.zeros(len(rows)))); opf.cType += 'S'*len(rows)
            rf = opf.optimize(solver='SCIPY')
        stats['c13']+=1
        if abs(rc.value-rf.value)>1e-6*(1+abs(rf.value)): viol.append((it,'C13 coarse', rc.value, rf.value, ec))
        d = outc['dispatch']['c'].values
        if np.abs(d[0::2]-d[1::2]).max()>1e-6: viol.append((it,'C13 constant rate'))
    except Exception as e:
        print(it, 'EXC', type(e).__name__, str(e)[:120]); print(''.join(traceback.format_exc().splitlines(True)[-4:]))
for v in viol: print('VIOL', v)
print('done seed', seed, 'violations', len(viol), stats)
