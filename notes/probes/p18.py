import numpy as np, pandas as pd, datetime as dt, warnings, io, contextlib
from copy import deepcopy
warnings.filterwarnings('ignore')
import eaopack as eao
from eaopack.assets import *
from eaopack.portfolio import Portfolio
S = dt.datetime
n1, n2 = Node('N1'), Node('N2')
def hdr(s): print('\n=====', s)

hdr('coarse + periodic together')
tg = Timegrid(S(2021,1,1), S(2021,1,5), freq='6h')
pr = {'p': np.arange(16.)%5}
for kw in [dict(freq='12h', periodicity='d'), dict(freq='d', periodicity='2d'), dict(freq='12h', periodicity='d', periodicity_duration='2d')]:
    try:
        a = SimpleContract(name='a', nodes=n1, price='p', min_cap=-1, max_cap=1, **kw)
        op = a.setup_optim_problem(pr, tg)
        print(kw, 'nvars', len(op.c), 'idx', sorted(set(op.mapping.index)), 'rows', len(op.mapping), 'steps covered', sorted(set(op.mapping.time_step))==list(range(16)))
        pf = Portfolio([a, SimpleContract(name='b', nodes=n1, min_cap=-10, max_cap=10)]); o = pf.setup_optim_problem(pr, tg); r = o.optimize(solver='SCIPY')
        out = eao.io.extract_output(pf, o, r); print('   value', r.value, 'dcf', out['DCF'].sum().sum(), 'disp a', out['dispatch']['a'].values)
    except Exception as e: print(kw, 'EXC', type(e).__name__, str(e)[:120])

hdr('periodic transport (dup rows) / periodic storage 2 var / periodic multi-commodity')
tg = Timegrid(S(2021,1,1), S(2021,1,3), freq='6h')
pr = {'p': np.array([1,5,2,6,3,7,4,8.]), 'q': np.ones(8)*4}
for mk in [lambda: Transport(name='x', nodes=[n1,n2], min_cap=0, max_cap=1, efficiency=0.5, periodicity='d'),
           lambda: Storage('x', nodes=n1, size=3, cap_in=1, cap_out=1, eff_in=0.5, periodicity='d'),
           lambda: Storage('x', nodes=n1, size=3, cap_in=1, cap_out=1, eff_in=0.5, no_simult_in_out=True, periodicity='d'),
           lambda: MultiCommodityContract(name='x', nodes=[n1,n2], min_cap=0, max_cap=1, factors_commodities=[1,-2.], periodicity='d', price='p'),
           lambda: Contract(name='x', nodes=n1, min_cap=0, max_cap=1, price='p', periodicity='d', max_take={'start':S(2021,1,1),'end':S(2021,1,3),'values':3.})]:
    try:
        with contextlib.redirect_stdout(io.StringIO()):
            a = mk(); op = a.setup_optim_problem(pr, tg)
        print(type(a).__name__, 'nvars', len(op.c), 'A', None if op.A is None else op.A.shape, 'idx set', sorted(set(op.mapping.index)), 'max idx ok', op.mapping.index.max() < len(op.c))
    except Exception as e: print('EXC', type(e).__name__, str(e)[:150])

hdr('SLP with out-of-horizon order / scaled asset')
tg = Timegrid(S(2021,1,1), S(2021,1,1,8), freq='h')
pr = {'p': np.array([1,5,2,6,3,7,4,8.])}
ob = OrderBook(name='ob', nodes=n1, orders=dict(start=[S(2021,2,1,3), S(2021,1,1,3)], end=[S(2021,2,1,5), S(2021,1,1,5)], capa=[5., 2.], price=[-100., -7.]))
mk = SimpleContract(name='mkt', nodes=n1, price='p', min_cap=-10, max_cap=10)
sc = ScaledAsset(name='sc', base_asset=Storage('s', nodes=n1, size=2, cap_in=1, cap_out=1), max_scale=3, fix_costs=0.1)
for assets in ([mk, ob], [mk, sc]):
    try:
        pf = Portfolio(assets); op = pf.setup_optim_problem(pr, tg)
        ops = eao.stoch_lin_prog.make_slp(portf=pf, optim_problem=deepcopy(op), timegrid=tg, start_future=S(2021,1,1,4), samples=[pr, pr])
        r = ops.optimize(solver='SCIPY'); r0 = op.optimize(solver='SCIPY'); print([a.name for a in assets], 'det', r0.value, 'slp', r.value)
    except Exception as e: print([a.name for a in assets], 'EXC', type(e).__name__, str(e)[:150])
