import numpy as np, pandas as pd, datetime as dt, warnings, io, contextlib, sys, random, traceback
warnings.filterwarnings('ignore')
import eaopack as eao
from eaopack.assets import *
from eaopack.portfolio import Portfolio, StructuredAsset
S = dt.datetime
seed = int(sys.argv[1]) if len(sys.argv)>1 else 0
N = int(sys.argv[2]) if len(sys.argv)>2 else 30
R = random.Random(seed)
def q(lo,hi): return R.randint(int(lo*4),int(hi*4))/4
def solve(assets, tg, prices, **kw):
    with contextlib.redirect_stdout(io.StringIO()):
        pf = Portfolio(assets); op = pf.setup_optim_problem(prices, tg, **kw); r = op.optimize()
        out = None if isinstance(r,str) else eao.io.extract_output(pf, op, r)
    return pf, op, r, out
viol = []
stats = {'solved':0,'blocks':0,'inflow':0,'twonode':0,'window':0,'startneend':0,'c15':0,'c16':0,'c08':0}
for it in range(N):
    try:
        T = R.choice([6,8,12]); h = R.choice([1,2,4]); unit = R.choice(['h','d','min'])
        u = pd.Timedelta(1,'h')/pd.Timedelta(1,unit)     # hours -> unit
        tz = R.choice([None,'CET'])
        start = S(2021,R.choice([1,3,10]),R.choice([1,27,30])) + dt.timedelta(hours=R.choice([0,0,22]))
        tg = Timegrid(start, start+dt.timedelta(hours=h*T), freq='%dh'%h, timezone=tz, main_time_unit=unit)
        T = tg.T
        n1, n2 = Node('N1'), Node('N2')
        prices = {'p': np.array([q(1,20)+R.random()*1e-3 for _ in range(T)]), 'q': np.array([q(1,20)+R.random()*1e-3 for _ in range(T)])}
        mk1 = SimpleContract(name='mk1', nodes=n1, price='p', min_cap=-20/u, max_cap=20/u)
        mk2 = SimpleContract(name='mk2', nodes=n2, price='q', min_cap=-20/u, max_cap=20/u, extra_costs=0.25)
        # ---------- C05 storage physics
        sl = q(0,3); two = R.random()<0.3
        win = R.choice([None,'in'])
        ss, se = (None,None) if win is None else (start+dt.timedelta(hours=h*2), start+dt.timedelta(hours=h*(T-1)))
        kw = dict(size=4, cap_in=q(0.5,2)/u, cap_out=q(0.5,2)/u, start_level=sl, end_level=R.choice([sl,q(0,3)]), eff_in=R.choice([1,0.75,0.5]),
                  inflow=R.choice([0,0.0625])/u, cost_store=R.choice([0,0.125])/u, cost_in=R.choice([0,0.25]), cost_out=R.choice([0,0.25]),
                  block_size=R.choice([None,None,'%dh'%(h*R.choice([2,3]))]), start=ss, end=se, wacc=R.choice([0,0.3]))
        if kw['block_size'] is not None and kw['end_level']!=kw['start_level'] and R.random()<0.5: kw['end_level']=kw['start_level']
        st = Storage('st', nodes=[n1,n2] if two else n1, **kw)
        tr = Transport(name='tr', nodes=[n1,n2], min_cap=0, max_cap=1/u, efficiency=0.5)
        pf, op, r, out = solve([st, mk1, mk2, tr], tg, prices)
        if out is None:
            print(it, 'storage scenario infeasible', {k:v for k,v in kw.items() if k in ('start_level','end_level','inflow','block_size')})
        else:
            stats['solved']+=1; stats['blocks']+= kw['block_size'] is not None; stats['inflow']+= kw['inflow']>0; stats['twonode']+=two; stats['window']+= win is not None; stats['startneend']+= kw['start_level']!=kw['end_level']
            m = op.mapping; ms = m[(m.asset=='st')&(m.type=='d')]; ms = ms[~ms.index.duplicated()]
            lev = np.zeros(T); 
            for i,rr in ms.iterrows():
                x = r.x[i]; lev[rr.time_step] += max(0,-x)*kw['eff_in'] + min(0,-x)
                lo, hi = -kw['cap_in']*tg.dt[rr.time_step]-1e-6, kw['cap_out']*tg.dt[rr.time_step]+1e-6
                if not (lo <= x <= hi): viol.append((it,'C05 rate', x, lo, hi))
            I = np.array(sorted(set(ms.time_step)))
            infl = np.zeros(T); infl[I] = kw['inflow']*tg.dt[I]
            lev = kw['start_level'] + np.cumsum(lev) + np.cumsum(infl)
            if lev[I].min() < -1e-5 or lev[I].max() > 4+1e-5: viol.append((it,'C05 level bounds', lev.round(3).tolist(), kw['block_size']))
            if abs(lev[I[-1]] - kw['end_level']) > 1e-5: viol.append((it,'C05 end level', lev[I[-1]], kw['end_level'], kw['block_size']))
            rep = out['internal_variables']['st_fill_level'].values.astype(float)
            if np.abs(rep - lev).max() > 1e-5: viol.append((it,'C05 reported', np.abs(rep-lev).max()))
            # ---------- C15 fix window
            k = R.randint(1,T-1); mask = np.array([True]*k+[False]*(T-k))
            with contextlib.redirect_stdout(io.StringIO()):
                op2 = pf.setup_optim_problem(prices, tg, fix_time_window={'I': mask.copy(), 'x': r.x.copy()}); r2 = op2.optimize()
            stats['c15']+=1
            if isinstance(r2,str): viol.append((it,'C15 status', r2))
            else:
                if abs(r2.value-r.value) > 1e-5*(1+abs(r.value)): viol.append((it,'C15 value', r.value, r2.value))
                fixed = op2.mapping.index[op2.mapping.time_step < k].unique()
                if np.abs(r2.x[fixed]-r.x[fixed]).max() > 1e-6: viol.append((it,'C15 fixed vars'))
            # ---------- C08 inertness: add out-of-horizon elements
            far = start + dt.timedelta(days=40)
            extra = [SimpleContract(name='far', nodes=n1, price='p', min_cap=-5, max_cap=5, start=far, end=far+dt.timedelta(days=1)),
                     OrderBook(name='obfar', nodes=n1, orders=dict(start=[far], end=[far+dt.timedelta(hours=5)], capa=[3.], price=[-50.])),
                     Storage('stfar', nodes=n2, size=3, cap_in=1, cap_out=1, start=start-dt.timedelta(days=9), end=start-dt.timedelta(days=8))]
            R.shuffle(extra)
            assets2 = [st, mk1] + extra[:2] + [mk2, tr] + extra[2:]
            pf3, op3, r3, out3 = solve(assets2, tg, prices)
            stats['c08']+=1
            if out3 is None or abs(r3.value-r.value) > 1e-5*(1+abs(r.value)): viol.append((it,'C08 inert', r.value, None if out3 is None else r3.value))
            # ---------- C16 scaled fixed
            s_, norm = q(0.5,3), R.choice([1,2]); kk = s_/norm
            kw2 = dict(kw); 
            for key in ('size','cap_in','cap_out','start_level','end_level','inflow'): kw2[key] = kw[key]*kk
            base = Storage('b', nodes=[n1,n2] if two else n1, **kw)
            sc = ScaledAsset(name='sc', base_asset=base, min_scale=s_, max_scale=s_, norm_scale=norm, fix_costs=0.125/u, start=ss, end=se)
            ref = Storage('b', nodes=[n1,n2] if two else n1, **kw2)
            _,_,ra,_ = solve([sc, mk1, mk2, tr], tg, prices); _,opb,rb,_ = solve([ref, mk1, mk2, tr], tg, prices)
            stats['c16']+=1
            if isinstance(ra,str) or isinstance(rb,str): viol.append((it,'C16 status', ra if isinstance(ra,str) else 'ok', rb if isinstance(rb,str) else 'ok'))
            else:
                active = tg.dt[I].sum() if kw['block_size'] is None or True else 0
                if abs(ra.value - (rb.value - s_*0.125/u*active)) > 1e-5*(1+abs(rb.value)): viol.append((it,'C16 scaled', ra.value, rb.value - s_*0.125/u*active, kw['block_size']))
        # ---------- C12 unit change handled by construction (u) : compare to unit 'h' build of same physical scenario
    except Exception as e:
        print(it, 'EXC', type(e).__name__, str(e)[:120]); print(''.join(traceback.format_exc().splitlines(True)[-4:]))
for v in viol: print('VIOL', v)
print('done seed', seed, 'violations', len(viol), stats)
