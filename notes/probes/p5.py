import numpy as np, pandas as pd, datetime as dt, warnings, traceback
warnings.filterwarnings('ignore')
import eaopack as eao
from eaopack.assets import *
from eaopack.portfolio import Portfolio, StructuredAsset, LinkedAsset
from eaopack.serialization import to_json, load_from_json
def hdr(s): print('\n=====', s)
S = dt.datetime
n1, n2 = Node('N1'), Node('N2')

hdr('P5a fix_time_window with transport (2 rows per var)')
tg = Timegrid(S(2021,1,1), S(2021,1,1,8), freq='h')
pr = {'p': np.array([1,5,2,6,3,7,4,8.]), 'q': np.array([4,4,4,4,4,4,4,4.])}
a = SimpleContract(name='a', nodes=n1, price='p', min_cap=-2, max_cap=2)
b = SimpleContract(name='b', nodes=n2, price='q', min_cap=-2, max_cap=2)
tr = Transport(name='tr', nodes=[n1,n2], min_cap=0, max_cap=1, efficiency=0.5)
for assets in ([a,b,tr],[tr,a,b]):
    pf = Portfolio(assets)
    op = pf.setup_optim_problem(pr, tg); r = op.optimize()
    try:
        mask = np.array([True]*3+[False]*5)
        op2 = pf.setup_optim_problem(pr, tg, fix_time_window={'I': mask, 'x': r.x.copy()})
        fixed = np.where(op2.l==op2.u)[0]
        print([x.name for x in assets], 'fixed vars', fixed.tolist())
        m = op2.mapping
        want = sorted(set(m.index[m.time_step.isin([0,1,2])]))
        print('   should be', want)
        r2 = op2.optimize(); print('   value', r.value, r2.value)
    except Exception as e: print([x.name for x in assets], 'EXC', type(e).__name__, str(e)[:120])

hdr('P5b serialization round trips')
def rt(obj, label):
    try:
        s = to_json(obj); o2 = load_from_json(s); s2 = to_json(o2)
        print(label, 'OK same json:', s==s2)
        return o2
    except Exception as e:
        print(label, 'EXC', type(e).__name__, str(e)[:150])
st = Storage('st', nodes=[n1,n2], size=4, cap_in=1, cap_out=1, eff_in=.9, block_size='d', max_store_duration=3, no_simult_in_out=True)
rt(st,'Storage')
chp = CHPAsset(name='chp', nodes=[n1,n2], min_cap=1, max_cap=3, price='p', min_runtime=2, start_costs=1.)
rt(chp,'CHP fresh')
tg = Timegrid(S(2021,1,1), S(2021,1,1,8), freq='h')
chp.setup_optim_problem(pr, tg)
rt(chp,'CHP after setup')
pl = Plant(name='pl', nodes=[n1], min_cap=1, max_cap=3, price='p', min_runtime=2, start_costs=1.)
rt(pl,'Plant fresh'); pl.setup_optim_problem(pr, tg); rt(pl,'Plant after setup')
chp3 = CHPAsset(name='chp', nodes=[n1,n2,Node('gas')], min_cap=1, max_cap=3, price='p', start_fuel=1.)
rt(chp3,'CHP fuel')
ml = CHPAsset_with_min_load_costs(name='ml', nodes=[n1,n2], min_cap=1, max_cap=3, price='p', min_load_threshhold=2., min_load_costs=1.)
rt(ml,'CHP minload')
sc = ScaledAsset(name='sc', base_asset=st, max_scale=3, fix_costs=.1)
rt(sc,'Scaled')
sa = StructuredAsset(name='SA', nodes=n1, portfolio=Portfolio([a, tr, b]))
rt(sa,'Structured')
mc = MultiCommodityContract(name='mc', nodes=[n1,n2], min_cap=0, max_cap=1, factors_commodities=[1,-2.])
rt(mc,'MultiCommodity')
et = ExtendedTransport(name='et', nodes=[n1,n2], min_cap=0, max_cap=1, min_take={'start':S(2021,1,1),'end':S(2021,1,2),'values':3})
rt(et,'ExtTransport')
ob = OrderBook(name='ob', nodes=n1, orders=dict(start=[S(2021,1,1,3)], end=[S(2021,1,1,5)], capa=[2.], price=[-7.]))
rt(ob,'OrderBook')
ct = Contract(name='c', nodes=n1, price='p', min_cap=np.array([0.]*8), max_cap={'start':[S(2021,1,1)], 'end':[S(2021,1,2)], 'values':[1.]}, min_take={'start':S(2021,1,1),'end':S(2021,1,2),'values':3})
rt(ct,'Contract w array/dict')
try:
    chpA = CHPAsset(name='A', nodes=[n1,n2], min_cap=1, max_cap=3, price='p', min_runtime=2)
    chpB = CHPAsset(name='B', nodes=[n1,n2], min_cap=1, max_cap=3, price='p', min_runtime=2)
    la = LinkedAsset(name='LA', nodes=[n1,n2], portfolio=Portfolio([chpA, chpB]), asset1_variable=(chpA,'disp',n1), asset2_variable=(chpB,'bool_on',None))
    rt(la,'Linked')
except Exception as e: print('Linked build EXC', type(e).__name__, str(e)[:150])

hdr('P5c tz portfolio roundtrip')
tgz = Timegrid(S(2021,3,27), S(2021,3,29), freq='h', timezone='CET')
cap = {'start':[S(2021,3,27), S(2021,3,28)], 'end':[S(2021,3,28), S(2021,3,30)], 'values':[1.,2.]}
az = SimpleContract(name='a', nodes=n1, price='p', min_cap=0, max_cap=cap)
pf = Portfolio([az]); pf.set_timegrid(tgz)
prz = {'p': np.arange(tgz.T)*1.}
pf2 = rt(pf, 'tz portfolio')
print('orig T', pf.timegrid.T, 'tz', pf.timegrid.tz, '| loaded T', pf2.timegrid.T, 'tz', pf2.timegrid.tz, 'same points', (pf.timegrid.timepoints==pf2.timegrid.timepoints).all())
try:
    op1 = pf.setup_optim_problem(prz)
    print('orig ok')
    op2 = pf2.setup_optim_problem(prz); print('loaded ok', (op1.u==op2.u).all())
except Exception as e: print('EXC', type(e).__name__, str(e)[:150])
