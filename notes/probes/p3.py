import numpy as np, pandas as pd, datetime as dt, warnings
warnings.filterwarnings('ignore')
import eaopack as eao
from eaopack.assets import *
from eaopack.portfolio import Portfolio
def hdr(s): print('\n=====', s)
S = dt.datetime
n1, n2 = Node('N1'), Node('N2')

def phys_level(st, x_in, x_out, dtv):
    # x_in <=0 charge (dispatch negative = taking from node), x_out>=0
    infl = np.cumsum(st.inflow*dtv)
    return st.start_level + np.cumsum(-x_in*st.eff_in - x_out) + infl

hdr('P3a storage with inflow: level bounds & reported fill level')
tg = Timegrid(S(2021,1,1), S(2021,1,1,12), freq='h')
pr = {'p': np.array([5,1,1,9,9,1,1,9,2,2,8,8.])}
st = Storage('st', nodes=n1, size=4, cap_in=2, cap_out=2, start_level=1, end_level=2, inflow=0.25, eff_in=0.5, price=None)
mk = SimpleContract(name='mkt', nodes=n1, price='p', min_cap=-10, max_cap=10)
pf = Portfolio([st, mk])
op = pf.setup_optim_problem(pr, tg); r = op.optimize()
m = op.mapping
xi = r.x[m[(m.asset=='st')&(m.var_name=='disp_in')].index]; xo = r.x[m[(m.asset=='st')&(m.var_name=='disp_out')].index]
lev = phys_level(st, xi, xo, tg.dt)
print('phys level', np.round(lev,4))
print('reported  ', np.round(st.fill_level(op, r),4))
out = eao.io.extract_output(pf, op, r)
print(out['internal_variables'].round(3).to_string())

hdr('P3b storage blocks, start!=end')
tg = Timegrid(S(2021,1,1), S(2021,1,3), freq='4h')
pr = {'p': np.tile(np.array([1,1,9,9,1,9.]),2)}
st = Storage('st', nodes=n1, size=4, cap_in=1, cap_out=1, start_level=1, end_level=3, block_size='d')
pf = Portfolio([st, mk]); op = pf.setup_optim_problem(pr, tg); r = op.optimize()
print('status', r if isinstance(r,str) else r.value)
if not isinstance(r,str):
    x = r.x[op.mapping[op.mapping.asset=='st'].index]
    print('phys level', np.round(1 + np.cumsum(-x),3), 'size 4')
hdr('P3c storage blocks, inflow')
st = Storage('st', nodes=n1, size=4, cap_in=1, cap_out=1, start_level=1, end_level=1, block_size='d', inflow=0.05)
pf = Portfolio([st, mk]); op = pf.setup_optim_problem(pr, tg); r = op.optimize()
print('status', r if isinstance(r,str) else r.value)
if not isinstance(r,str):
    x = r.x[op.mapping[op.mapping.asset=='st'].index]
    print('phys level', np.round(1 + np.cumsum(-x) + np.cumsum(0.05*tg.dt),3), 'size 4; end level should be 1')

hdr('P3d io charge/discharge use stale node variable')
tg = Timegrid(S(2021,1,1), S(2021,1,1,6), freq='h')
pr = {'p': np.array([1,1,9,9,1,9.])}
st = Storage('st', nodes=n1, size=4, cap_in=1, cap_out=1)
mk1 = SimpleContract(name='mkt', nodes=n1, price='p', min_cap=-10, max_cap=10)
tr = Transport(name='tr', nodes=[n1,n2], min_cap=0, max_cap=1)
mk2 = SimpleContract(name='mkt2', nodes=n2, price='p', min_cap=-10, max_cap=10, extra_costs=0)
for assets in ([st, mk1, tr, mk2], [mk2, tr, mk1, st]):
    pf = Portfolio(assets); op = pf.setup_optim_problem(pr, tg); r = op.optimize()
    out = eao.io.extract_output(pf, op, r)
    iv = out['internal_variables']
    print([a.name for a in assets]); print(iv.round(3).to_string())
