import numpy as np, pandas as pd, datetime as dt, warnings, io, contextlib
warnings.filterwarnings('ignore')
import eaopack as eao
from eaopack.assets import *
from eaopack.portfolio import Portfolio
S = dt.datetime
n1, n2 = Node('N1'), Node('N2')
pr = {'p': np.array([1,5,2,6,3,7,2,9,1,4,4,8.]), 'g': np.ones(12)*1.5}
def build(unit):
    k = pd.Timedelta(1,'h')/pd.Timedelta(1,unit)   # hours -> unit : value_in_unit = hours*k ; rates per hour -> per unit: /k
    tg = Timegrid(S(2021,1,1), S(2021,1,2), freq='2h', main_time_unit=unit)
    with contextlib.redirect_stdout(io.StringIO()):
        mk = SimpleContract(name='mk', nodes=n1, price='p', min_cap=-10/k, max_cap=10/k, wacc=0.3)
        st = Storage('st', nodes=n1, size=5, cap_in=1/k, cap_out=1.5/k, eff_in=0.8, inflow=0.1/k, cost_store=0.02/k, start_level=1, end_level=2, wacc=0.3, max_store_duration=8*k)
        pl = Plant(name='pl', nodes=[n1, n2], min_cap=1/k, max_cap=3/k, ramp=1/k, min_runtime=6*k, min_downtime=4*k, time_already_off=2*k, start_costs=2., running_costs=0.3/k, fuel_efficiency=0.5, consumption_if_on=0.2/k, start_fuel=1.)
        gas = SimpleContract(name='gas', nodes=n2, price='g', min_cap=0, max_cap=100/k)
        ct = Contract(name='ct', nodes=n1, min_cap=0, max_cap=2/k, extra_costs=3., min_take={'start':S(2020,12,31,12),'end':S(2021,1,1,12),'values':6.})
        pf = Portfolio([mk, st, pl, gas, ct])
        op = pf.setup_optim_problem(pr, tg); r = op.optimize()
    return r if isinstance(r,str) else r.value
for u in ['h','d','min','30min']:
    try: print(u, build(u))
    except Exception as e: print(u, 'EXC', type(e).__name__, str(e)[:200])
