import numpy as np, pandas as pd, datetime as dt, warnings
warnings.filterwarnings('ignore')
import eaopack as eao
from eaopack.assets import *
from eaopack.portfolio import Portfolio

def hdr(s): print('\n=====', s)

# P1: key collision between assets "1" and "11"
hdr('P1 key collision')
n = Node('N')
tg = Timegrid(dt.date(2021,1,1), dt.date(2021,1,13), freq='d')   # 12 steps
prices = {'p': np.arange(12.)+1, 'q': np.arange(12.)*0+5}
a = SimpleContract(name='1',  nodes=n, price='p', min_cap=-1, max_cap=1)
b = SimpleContract(name='11', nodes=n, price='q', min_cap=-1, max_cap=1)
for names in [('1','11'), ('A','B')]:
    a.name, b.name = names
    pf = Portfolio([a,b])
    op = pf.setup_optim_problem(prices, tg)
    print(names, 'nvars', len(op.c), 'mapping idx max', op.mapping.index.max(), 'n unique idx', op.mapping.index.nunique())
    try:
        r = op.optimize()
        print(' value', r.value if not isinstance(r,str) else r)
    except Exception as e: print(' EXC', type(e).__name__, e)
