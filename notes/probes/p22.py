import numpy as np, pandas as pd, datetime as dt, warnings
warnings.filterwarnings('ignore')
import eaopack as eao
from eaopack.assets import *
S = dt.datetime
n1 = Node('N1')
tg = Timegrid(S(2021,1,1), S(2021,1,3), freq='6h')
st = Storage('st', nodes=n1, size=4, cap_in=1, cap_out=1, block_size='d')
op = st.setup_optim_problem({'p':np.zeros(8)}, tg)
A = op.A.toarray()[:8]
print((A!=0).astype(int))
for (s,e) in [(S(2021,1,1,6), None), (None, S(2021,1,2,18))]:
    st = Storage('st', nodes=n1, size=4, cap_in=1, cap_out=1, block_size='d', start=s, end=e)
    op = st.setup_optim_problem({'p':np.zeros(8)}, tg); A = op.A.toarray()[:op.A.shape[1]]
    print(s,e); print((A!=0).astype(int))
