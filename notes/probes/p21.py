import numpy as np, pandas as pd, datetime as dt, warnings, io, contextlib
warnings.filterwarnings('ignore')
import eaopack as eao
from eaopack.assets import *
from eaopack.portfolio import Portfolio
S = dt.datetime
n1, n2 = Node('N1'), Node('N2')
tg = Timegrid(S(2021,1,1), S(2021,1,3), freq='6h')
pr = {'p': -np.array([1,5,2,6,3,7,4,8.])}
for mk in [lambda: Plant(name='pl', nodes=[n1], min_cap=1, max_cap=3, price='p', periodicity='d'),
           lambda: Plant(name='pl', nodes=[n1], min_cap=0, max_cap=3, price='p', periodicity='d'),
           lambda: CHPAsset(name='c', nodes=[n1,n2], min_cap=0, max_cap=3, price='p', periodicity='d'),
           lambda: ExtendedTransport(name='et', nodes=[n1,n2], min_cap=0, max_cap=1, periodicity='d', max_take={'start':S(2021,1,1),'end':S(2021,1,3),'values':3.})]:
    try:
        with contextlib.redirect_stdout(io.StringIO()):
            a = mk(); op = a.setup_optim_problem(pr, tg)
        print(type(a).__name__, 'nvars', len(op.c), 'A', op.A.shape if op.A is not None else None, 'idx', sorted(set(op.mapping.index)))
    except Exception as e: print('EXC', type(e).__name__, str(e)[:150])
