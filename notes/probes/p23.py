import numpy as np, pandas as pd, datetime as dt, warnings, io, contextlib, time
warnings.filterwarnings('ignore')
import eaopack as eao
from eaopack.assets import *
from eaopack.portfolio import Portfolio
S = dt.datetime
n1, n2 = Node('N1'), Node('N2')
rng = np.random.default_rng(0)
tb = ts = tx = 0; N = 40
for k in range(N):
    T = 12
    tg = Timegrid(S(2021,1,1), S(2021,1,1,T), freq='h')
    pr = {'p': rng.integers(1,20,T)*1., 'q': rng.integers(1,20,T)*1.}
    t0 = time.perf_counter()
    with contextlib.redirect_stdout(io.StringIO()):
        a = SimpleContract(name='a', nodes=n1, price='p', min_cap=-2, max_cap=2)
        b = Contract(name='b', nodes=n2, price='q', min_cap=-1, max_cap=3, extra_costs=0.5, max_take={'start':S(2021,1,1),'end':S(2021,1,1,8),'values':6.})
        tr = Transport(name='tr', nodes=[n1,n2], min_cap=0, max_cap=1, efficiency=0.5, costs_const=0.25)
        st = Storage('st', nodes=n1, size=2, cap_in=1, cap_out=1, eff_in=0.75, cost_store=0.125)
        pl = Plant(name='pl', nodes=[n1], min_cap=1, max_cap=3, min_runtime=3, start_costs=1., price='q') if k%2 else SimpleContract(name='pl', nodes=n1, price='q', min_cap=0, max_cap=1)
        pf = Portfolio([a,b,tr,st,pl]); op = pf.setup_optim_problem(pr, tg)
        t1 = time.perf_counter()
        r = op.optimize()
        t2 = time.perf_counter()
        out = eao.io.extract_output(pf, op, r)
        t3 = time.perf_counter()
    tb += t1-t0; ts += t2-t1; tx += t3-t2
print('per scenario: build %.3fs solve %.3fs extract %.3fs' % (tb/N, ts/N, tx/N))
