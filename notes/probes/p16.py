import numpy as np, pandas as pd, datetime as dt, warnings, io, contextlib
from fractions import Fraction as F
warnings.filterwarnings('ignore')
import eaopack as eao
from eaopack.assets import *
from eaopack.portfolio import Portfolio
S = dt.datetime
n1, n2 = Node('N1'), Node('N2')
tg = Timegrid(S(2021,1,1), S(2021,1,1,8), freq='h')
rng = np.random.default_rng(7)
pr = {'p': rng.integers(1,20,8)*1., 'q': rng.integers(1,20,8)*1.}
a = SimpleContract(name='a', nodes=n1, price='p', min_cap=-2, max_cap=2)
b = Contract(name='b', nodes=n2, price='q', min_cap=-1, max_cap=3, extra_costs=0.5, max_take={'start':S(2021,1,1),'end':S(2021,1,1,8),'values':6.}, min_take={'start':S(2021,1,1),'end':S(2021,1,1,4),'values':-2.})
tr = Transport(name='tr', nodes=[n1,n2], min_cap=0, max_cap=1, efficiency=0.5, costs_const=0.25)
st = Storage('st', nodes=n1, size=2, cap_in=1, cap_out=1, eff_in=0.75, cost_store=0.125)
pf = Portfolio([a,b,tr,st])
op = pf.setup_optim_problem(pr, tg)
for solver in [None, 'SCIPY', 'CLARABEL']:
    r = op.optimize(solver=solver) if solver else op.optimize()
    A = op.A.toarray(); bb = op.b; kinds = op.cType
    # assemble y in row order from duals dict per kind
    y = np.zeros(len(bb)); 
    for k in 'ULSN':
        rows = [i for i,c in enumerate(kinds) if c==k]
        if rows: y[rows] = np.asarray(r.duals[k]).ravel()
    best=None
    import itertools
    for sgn in itertools.product([1,-1], repeat=4):
        yy = y.copy()
        for i,c in enumerate(kinds): yy[i] *= sgn['ULSN'.index(c)]
        # sign-correct: U rows y>=0, L rows y<=0  (for max problem: value <= y.b + sum_j max((-c - A^T y)_j * l_j, * u_j))
        yy2 = yy.copy()
        for i,c in enumerate(kinds):
            if c=='U': yy2[i]=max(yy2[i],0)
            if c=='L': yy2[i]=min(yy2[i],0)
        # exact
        Af = [[F(float(v)) for v in row] for row in A]; bf=[F(float(v)) for v in bb]; yf=[F(float(v)) for v in yy2]
        cf=[F(float(v)) for v in op.c]; lf=[F(float(v)) for v in op.l]; uf=[F(float(v)) for v in op.u]
        red = [ -cf[j] - sum(yf[i]*Af[i][j] for i in range(len(bf)) if Af[i][j]!=0) for j in range(len(cf))]
        UB = sum(yf[i]*bf[i] for i in range(len(bf))) + sum(max(red[j]*lf[j], red[j]*uf[j]) for j in range(len(cf)))
        gap = float(UB - F(float(r.value)))
        if best is None or abs(gap)<abs(best[1]): best=(sgn,gap)
    print(solver, 'value', r.value, 'best sign', best[0], 'exact gap', best[1])
