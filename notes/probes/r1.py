import numpy as np, pandas as pd, datetime as dt, warnings, io, contextlib, sys, random, traceback
warnings.filterwarnings('ignore')
import eaopack as eao
from eaopack.assets import *
from eaopack.portfolio import Portfolio, StructuredAsset
S = dt.datetime
seed = int(sys.argv[1]) if len(sys.argv)>1 else 0
R = random.Random(seed)
def q(lo,hi): return R.randint(lo*4,hi*4)/4
def mkgrid():
    T = R.choice([6,8,12,16,24]); f = R.choice(['h','2h','3h','6h'])
    h = {'h':1,'2h':2,'3h':3,'6h':6}[f]
    start = S(2021,1,1) + dt.timedelta(hours=R.choice([0,0,6,13]))
    tz = R.choice([None,None,'CET'])
    return Timegrid(start, start+dt.timedelta(hours=h*T), freq=f, timezone=tz, main_time_unit=R.choice(['h','h','d']))
def window(tg):
    k = R.choice(['none','none','inside','before','after','straddle_s','straddle_e'])
    s0, e0 = tg.start.tz_localize(None) if tg.tz else tg.start, tg.end.tz_localize(None) if tg.tz else tg.end
    L = (e0-s0)
    if k=='none': return None, None
    if k=='inside': return s0+L*0.25, s0+L*0.75
    if k=='before': return s0-L, s0-L*0.5
    if k=='after': return e0+L*0.5, e0+L
    if k=='straddle_s': return s0-L*0.5, s0+L*0.5
    return s0+L*0.5, e0+L*0.5
def mkassets(tg, nodes):
    T = tg.T; u = pd.Timedelta(1,'h')/pd.Timedelta(1,tg.main_time_unit)
    assets = []; names = iter(['a%d'%i for i in range(20)])
    n = R.randint(2,6)
    # always a market per node so things are feasible
    for nd in nodes:
        assets.append(SimpleContract(name='mk_'+nd.name, nodes=nd, price='p_'+nd.name, min_cap=-20/u, max_cap=20/u, extra_costs=R.choice([0,0.25])))
    for i in range(n):
        kind = R.choice(['sc','ct','tr','st','mc','ob','et'])
        s,e = window(tg); nm = next(names); nd = R.choice(nodes); w = R.choice([0,0,0.5])
        if kind=='sc':
            assets.append(SimpleContract(name=nm, nodes=nd, price=R.choice(['x','y']), min_cap=q(-3,0)/u, max_cap=q(0,3)/u, extra_costs=R.choice([0,0.5]), start=s, end=e, wacc=w))
        elif kind=='ct':
            ts, te = window(tg); 
            if ts is None: ts, te = S(2021,1,1), S(2021,1,2)
            assets.append(Contract(name=nm, nodes=nd, price=R.choice(['x','y']), min_cap=0, max_cap=q(1,3)/u, extra_costs=R.choice([0,0.5]), start=s, end=e, wacc=w,
                                   max_take={'start':ts,'end':te,'values':q(1,6)}))
        elif kind=='tr' and len(nodes)>1:
            a,b = R.sample(nodes,2)
            assets.append(Transport(name=nm, nodes=[a,b], min_cap=0, max_cap=q(1,3)/u, efficiency=R.choice([1,0.5,0.75]), costs_const=R.choice([0,0.25]), start=s, end=e, wacc=w))
        elif kind=='et' and len(nodes)>1:
            a,b = R.sample(nodes,2)
            assets.append(ExtendedTransport(name=nm, nodes=[a,b], min_cap=0, max_cap=q(1,3)/u, efficiency=R.choice([1,0.5]), start=s, end=e, max_take={'start':S(2021,1,1),'end':S(2021,1,1,12),'values':q(1,4)}))
        elif kind=='st':
            sl = q(0,2); 
            assets.append(Storage(nm, nodes=nd, size=4, cap_in=q(1,2)/u, cap_out=q(1,2)/u, start_level=sl, end_level=R.choice([sl, q(0,2)]), eff_in=R.choice([1,0.75]), cost_store=R.choice([0,0.125])/u, inflow=R.choice([0,0.125])/u, cost_in=R.choice([0,0.25]), start=s, end=e, wacc=w))
        elif kind=='mc' and len(nodes)>1:
            a,b = R.sample(nodes,2)
            assets.append(MultiCommodityContract(name=nm, nodes=[a,b], min_cap=0, max_cap=q(1,2)/u, price='x', factors_commodities=[1, R.choice([0.5,-1,2])], start=s, end=e))
        elif kind=='ob':
            no = R.randint(1,4); st_=[];en=[];ca=[];pr=[]
            for _ in range(no):
                os_, oe_ = window(tg)
                if os_ is None: os_, oe_ = S(2021,1,1,2), S(2021,1,1,9)
                st_.append(os_); en.append(oe_); ca.append(R.choice([-2,-1,1,2])/u); pr.append(q(1,15))
            assets.append(OrderBook(name=nm, nodes=nd, orders=dict(start=st_, end=en, capa=ca, price=pr), full_exec=R.choice([False,False,True])))
    return assets
def run(assets, tg, prices, split=None):
    with contextlib.redirect_stdout(io.StringIO()):
        pf = Portfolio(assets)
        if split: op = pf.setup_split_optim_problem(prices, tg, interval_size=split)
        else: op = pf.setup_optim_problem(prices, tg)
        r = op.optimize()
        if isinstance(r,str): return pf, op, r, None
        out = eao.io.extract_output(pf, op, r)
    return pf, op, r, out
def check(pf, op, r, out, label):
    bad = []
    d = out['dispatch']; sc = 1+abs(r.value)
    for n in pf.nodes:
        cols = [c for c in d.columns if c.endswith('('+n+')')] if len(pf.nodes)>1 else list(d.columns)
        s = d[cols].sum(axis=1).abs().max()
        if s > 1e-5: bad.append(('C01', n, s))
    if abs(out['DCF'].sum().sum()-r.value) > 1e-5*sc: bad.append(('C04', out['DCF'].sum().sum(), r.value))
    return bad
nviol = 0
for it in range(int(sys.argv[2]) if len(sys.argv)>2 else 30):
    tg = mkgrid(); nodes = [Node('N%d'%i) for i in range(R.randint(1,3))]
    T = tg.T
    prices = {'x': np.array([q(1,20) for _ in range(T)]), 'y': np.array([q(1,20) for _ in range(T)])}
    for nd in nodes: prices['p_'+nd.name] = np.array([q(1,20)+R.random()*1e-3 for _ in range(T)])
    try:
        assets = mkassets(tg, nodes)
        pf, op, r, out = run(assets, tg, prices)
        if out is None: print(it, 'status', r); continue
        bad = check(pf, op, r, out, 'mono')
        # permutation
        perm = assets[:]; R.shuffle(perm)
        pf2, op2, r2, out2 = run(perm, tg, prices)
        if out2 is None or abs(r2.value-r.value) > 1e-5*(1+abs(r.value)): bad.append(('C09perm', r.value, None if out2 is None else r2.value))
        # split
        isMIP = 'bool' in op.mapping and op.mapping['bool'].fillna(False).any()
        pf3, op3, r3, out3 = run(assets, tg, prices, split=R.choice(['6h','12h','d']))
        if out3 is not None:
            bad += [('split',)+b for b in check(pf3, op3, r3, out3, 'split')]
        if bad: nviol += 1; print(it, 'VIOL', bad[:3], [type(a).__name__ for a in assets], tg.freq, tg.T, tg.tz, tg.main_time_unit)
    except Exception as e:
        print(it, 'EXC', type(e).__name__, str(e)[:100], [type(a).__name__ for a in assets] if 'assets' in dir() else '')
        if type(e).__name__ in ('KeyError','IndexError'): print(''.join(traceback.format_exc().splitlines(True)[-8:]))
print('done seed', seed, 'violating scenarios', nviol)
