import numpy as np, pandas as pd, datetime as dt, warnings, io, contextlib
warnings.filterwarnings('ignore')
import eaopack as eao
from eaopack.assets import *
from eaopack.portfolio import Portfolio
S = dt.datetime
n1, n2 = Node('N1'), Node('N2')
rng = np.random.default_rng(3)
for (s,e,f,isz) in [(S(2021,1,1),S(2021,1,4),'4h','d'), (S(2021,1,1,6),S(2021,1,3,18),'3h','d'), (S(2021,1,1,6),S(2021,1,3,18),'3h','15h'), (S(2021,3,27),S(2021,3,30),'4h','d')]:
  for tz in [None,'CET']:
    tg = Timegrid(s,e,freq=f, timezone=tz); T=tg.T
    pr = {'p': rng.integers(1,20,T)*1., 'q': rng.integers(1,20,T)*1.}
    a = SimpleContract(name='a', nodes=n1, price='p', min_cap=-2, max_cap=2, wacc=0.4)
    b = SimpleContract(name='b', nodes=n2, price='q', min_cap=-1, max_cap=3, extra_costs=0.5, wacc=0.4, start=s+dt.timedelta(hours=9), end=e-dt.timedelta(hours=20))
    tr = Transport(name='tr', nodes=[n1,n2], min_cap=0, max_cap=1, efficiency=0.5, costs_const=0.1, wacc=0.4)
    pf = Portfolio([a,b,tr])
    try:
        with contextlib.redirect_stdout(io.StringIO()):
            r = pf.setup_optim_problem(pr, tg).optimize(solver='SCIPY')
            ops = pf.setup_split_optim_problem(pr, tg, interval_size=isz); rs = ops.optimize(solver='SCIPY')
        print(f, isz, tz, 'T',T,'mono', round(r.value,6), 'split', round(rs.value,6), 'n intervals', len(ops.ops), 'x equal', np.allclose(r.x, rs.x, atol=1e-6) if len(r.x)==len(rs.x) else ('len', len(r.x), len(rs.x)), 'steps', sorted(set(ops.mapping.time_step))==list(range(T)))
    except Exception as ex: print(f, isz, tz, 'EXC', type(ex).__name__, str(ex)[:150])
