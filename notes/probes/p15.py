import numpy as np, pandas as pd, datetime as dt, warnings, io, contextlib
warnings.filterwarnings('ignore')
import eaopack as eao
from eaopack.assets import *
from scipy.optimize import milp, LinearConstraint, Bounds
S = dt.datetime
n1, n2 = Node('N1'), Node('G')
tg = Timegrid(S(2021,1,1), S(2021,1,1,5), freq='h')
with contextlib.redirect_stdout(io.StringIO()):
    pl = Plant(name='pl', nodes=[n1,n2], min_cap=1, max_cap=3, price='p', min_runtime=2, start_costs=0., start_fuel=1.)
    op = pl.setup_optim_problem({'p': -np.ones(5)}, tg)
# pin on = 1 1 1 1 1 and start = 1 0 1 0 0 : feasible?
l = op.l.copy(); u = op.u.copy()
for t,v in enumerate([1,1,1,1,1]): l[pl.on_idx+t]=u[pl.on_idx+t]=v
for t,v in enumerate([1,0,1,0,0]): l[pl.start_idx+t]=u[pl.start_idx+t]=v
A = op.A.toarray(); b=op.b
lo = np.full(len(b), -np.inf); hi = np.full(len(b), np.inf)
for i,ct in enumerate(op.cType):
    if ct=='U': hi[i]=b[i]
    elif ct=='L': lo[i]=b[i]
    else: lo[i]=hi[i]=b[i]
r = milp(c=np.zeros(len(l)), constraints=LinearConstraint(A, lo, hi), bounds=Bounds(l,u))
print('spurious start at t=2 while on throughout feasible:', r.status==0)
m = op.mapping
print(m[(m.node=='G')].groupby('var_name').size())
