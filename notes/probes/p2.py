import numpy as np, pandas as pd, datetime as dt, warnings
warnings.filterwarnings('ignore')
import eaopack as eao
from eaopack.assets import *
from eaopack.portfolio import Portfolio
def hdr(s): print('\n=====', s)

hdr('P1b key collision, separated nodes: value must be 0')
n1, n2 = Node('N1'), Node('N2')
tg = Timegrid(dt.date(2021,1,1), dt.date(2021,1,13), freq='d')
prices = {'p': np.arange(12.)+1, 'q': -(np.arange(12.)+3)}
for names in [('1','11'), ('A','B')]:
    a = SimpleContract(name=names[0],  nodes=n1, price='p', min_cap=-1, max_cap=1)
    b = SimpleContract(name=names[1], nodes=n2, price='q', min_cap=-1, max_cap=1)
    pf = Portfolio([a,b])
    op = pf.setup_optim_problem(prices, tg)
    r = op.optimize()
    print(names, 'value', r.value if not isinstance(r,str) else r)
    out = eao.io.extract_output(pf, op, r)
    print(out['dispatch'].abs().sum().to_dict(), 'DCF sum', out['DCF'].sum().sum())

hdr('P2 order book with order outside horizon')
tg = Timegrid(dt.datetime(2021,1,1), dt.datetime(2021,1,2), freq='h')
def ob(orders):
    return OrderBook(name='ob', nodes=n1, orders=orders)
S = dt.datetime
inside  = dict(start=[S(2021,1,1,3)], end=[S(2021,1,1,5)], capa=[2.], price=[-7.])   # sell? sign
both    = dict(start=[S(2021,2,1,3), S(2021,1,1,3)], end=[S(2021,2,1,5), S(2021,1,1,5)], capa=[5., 2.], price=[-100., -7.])
both2   = dict(start=[S(2021,1,1,3), S(2021,2,1,3)], end=[S(2021,1,1,5), S(2021,2,1,5)], capa=[2., 5.], price=[-7., -100.])
mk = SimpleContract(name='mkt', nodes=n1, price='p', min_cap=-10, max_cap=10)
pr = {'p': np.ones(24)*5.}
for nm, o in [('inside',inside),('outside-first',both),('outside-last',both2)]:
    try:
        pf = Portfolio([ob(o), mk])
        op = pf.setup_optim_problem(pr, tg)
        r = op.optimize()
        print(nm, 'nvars', len(op.c), 'uniq idx', op.mapping.index.nunique(), 'value', r.value)
        out = eao.io.extract_output(pf, op, r)
        print('  special:', out['special'][['name','value','costs']].values.tolist())
    except Exception as e:
        print(nm, 'EXC', type(e).__name__, e)
for nm, o in [('mkt first, outside-first',both)]:
    try:
        pf = Portfolio([mk, ob(o)])
        op = pf.setup_optim_problem(pr, tg)
        r = op.optimize()
        print(nm, 'nvars', len(op.c), 'uniq idx', op.mapping.index.nunique(), 'value', r.value)
    except Exception as e:
        print(nm, 'EXC', type(e).__name__, e)
# all orders outside
allout = dict(start=[S(2021,2,1,3)], end=[S(2021,2,1,5)], capa=[5.], price=[-100.])
for order in [[0,1],[1,0]]:
    try:
        assets = [ob(allout), mk]; assets = [assets[i] for i in order]
        pf = Portfolio(assets)
        op = pf.setup_optim_problem(pr, tg)
        r = op.optimize()
        print('all outside', order, 'nvars', len(op.c), 'value', r.value)
    except Exception as e:
        print('all outside', order, 'EXC', type(e).__name__, e)
