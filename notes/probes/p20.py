import numpy as np, pandas as pd, datetime as dt, warnings, io, contextlib
warnings.filterwarnings('ignore')
import cvxpy
import eaopack as eao
from eaopack.assets import *
from eaopack.portfolio import Portfolio
S = dt.datetime
n1, n2 = Node('N1'), Node('N2')
rec = {}
Orig = cvxpy.Problem
class Rec(Orig):
    def __init__(self, objective, constraints=None):
        rec['obj'] = objective; rec['cons'] = list(constraints)
        super().__init__(objective, constraints)
cvxpy.Problem = Rec
tg = Timegrid(S(2021,1,1), S(2021,1,1,4), freq='h')
pr = {'p': np.array([1,5,2,6.])}
with contextlib.redirect_stdout(io.StringIO()):
    pl = Plant(name='pl', nodes=[n1], min_cap=1, max_cap=3, price='p', min_runtime=2, start_costs=1.)
    b = Contract(name='b', nodes=n1, price='p', min_cap=-1, max_cap=3, max_take={'start':S(2021,1,1),'end':S(2021,1,1,4),'values':6.})
    pf = Portfolio([pl,b]); op = pf.setup_optim_problem(pr, tg); r = op.optimize()
print(type(rec['obj']).__name__, rec['obj'].args[0])
v = None
for c in rec['cons']:
    lhs, rhs = c.args
    print(type(c).__name__, '| lhs', type(lhs).__name__, [type(a).__name__ for a in lhs.args], '| rhs', type(rhs).__name__, getattr(rhs,'shape',None))
    for a in ([lhs]+list(lhs.args)+[rhs]+list(rhs.args)):
        if isinstance(a, cvxpy.Variable): v = a
print('variable attrs boolean idx:', v.boolean_idx if hasattr(v,'boolean_idx') else v.attributes.get('boolean'))
cvxpy.Problem = Orig
