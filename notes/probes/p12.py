import numpy as np, pandas as pd, datetime as dt, warnings, io, contextlib
warnings.filterwarnings('ignore')
import eaopack as eao
from eaopack.assets import *
from eaopack.portfolio import Portfolio
S = dt.datetime
n1 = Node('N1')
tg = Timegrid(S(2021,1,1), S(2021,1,1,8), freq='h')
pr = {'p': np.array([5,5,5,5,5,5,5,5.])}
for kw in [dict(start_level=1, end_level=1), dict(start_level=0,end_level=0,inflow=0.1), dict(start_level=0,end_level=0)]:
    st = Storage('st', nodes=n1, size=4, cap_in=1, cap_out=1, max_store_duration=2, **kw)
    mk = SimpleContract(name='mk', nodes=n1, price='p', min_cap=-10, max_cap=10)
    pf = Portfolio([st, mk]); op = pf.setup_optim_problem(pr, tg)
    with contextlib.redirect_stdout(io.StringIO()): r = op.optimize()
    if isinstance(r,str): print(kw, r); continue
    m = op.mapping
    x = r.x[m.index[(m.asset=='st')&(m.type=='d')]]
    lev = kw['start_level'] + np.cumsum(-x) + np.cumsum(kw.get('inflow',0)*tg.dt)
    print(kw, 'value', round(r.value,4), 'phys level', np.round(lev,3), 'bools', np.round(r.x[m.index[(m.var_name=='bool_2')]],2))
