import numpy as np, pandas as pd, datetime as dt, warnings, io, contextlib
warnings.filterwarnings('ignore')
import eaopack as eao
from eaopack.assets import *
from eaopack.portfolio import Portfolio, StructuredAsset
def hdr(s): print('\n=====', s)
S = dt.datetime
nP, nH, nG, nX = Node('P'), Node('H'), Node('G'), Node('X')
tg = Timegrid(S(2021,1,1), S(2021,1,3), freq='4h')
T = tg.T
rng = np.random.default_rng(1)
pr = {'p': rng.integers(1,20,T)*1., 'h': rng.integers(1,10,T)*1., 'g': rng.integers(1,5,T)*1., 'x': rng.integers(1,20,T)*1.}

def balance(pf, op, r, label):
    out = eao.io.extract_output(pf, op, r)
    d = out['dispatch']
    worst = 0
    for n in pf.nodes:
        cols = [c for c in d.columns if c.endswith('('+n+')')] if len(pf.nodes)>1 else list(d.columns)
        s = d[cols].sum(axis=1).abs().max(); worst = max(worst, s)
    print(label, 'value', round(r.value,4), 'DCF sum', round(out['DCF'].sum().sum(),4), 'worst node imbalance', worst)
    return out

with contextlib.redirect_stdout(io.StringIO()) as f:
    mkP = SimpleContract(name='mkP', nodes=nP, price='p', min_cap=-10, max_cap=10, extra_costs=0.1)
    mkH = SimpleContract(name='mkH', nodes=nH, price='h', min_cap=-3, max_cap=0)
    mkG = SimpleContract(name='mkG', nodes=nG, price='g', min_cap=0, max_cap=30)
    chp = CHPAsset(name='chp', nodes=[nP,nH,nG], min_cap=1, max_cap=3, min_runtime=8, start_costs=2., start_fuel=1., fuel_efficiency=0.5, consumption_if_on=0.1, conversion_factor_power_heat=0.5, max_share_heat=0.75)
    st = Storage('st', nodes=[nP,nX], size=10, cap_in=1, cap_out=1, eff_in=0.9, cost_store=0.01, inflow=0.1, start_level=2, end_level=1)
    mkX = SimpleContract(name='mkX', nodes=nX, price='x', min_cap=-10, max_cap=10)
    tr = Transport(name='tr', nodes=[nX,nP], min_cap=0, max_cap=2, efficiency=0.9, costs_const=0.2)
    mc = MultiCommodityContract(name='mc', nodes=[nP,nH], min_cap=0, max_cap=1, factors_commodities=[1,2.], extra_costs=1., max_take={'start':S(2021,1,1),'end':S(2021,1,2,12),'values':20})
    day = SimpleContract(name='day', nodes=nP, price='p', min_cap=-1, max_cap=1, freq='d')
    ob = OrderBook(name='ob', nodes=nP, orders=dict(start=[S(2021,1,1,4), S(2021,1,1)], end=[S(2021,1,1,12), S(2021,1,2)], capa=[2.,-1], price=[8.,3.]))
    sa = StructuredAsset(name='SA', nodes=[nP], portfolio=Portfolio([SimpleContract(name='i1', nodes=nP, min_cap=-5,max_cap=5), Transport(name='itr', nodes=[nP,Node('Y')], min_cap=0, max_cap=2, efficiency=0.5), SimpleContract(name='i2', nodes=Node('Y'), price='x', min_cap=-5,max_cap=0)]))
    pf = Portfolio([mkP, mkH, mkG, chp, st, mkX, tr, mc, day, ob, sa])
    op = pf.setup_optim_problem(pr, tg); r = op.optimize()
print('MIP status', r if isinstance(r,str) else 'ok')
out = balance(pf, op, r, 'mono')
with contextlib.redirect_stdout(io.StringIO()) as f:
    ops = pf.setup_split_optim_problem(pr, tg, interval_size='d'); rs = ops.optimize()
out2 = balance(pf, ops, rs, 'split')
# check sum of DCF per asset = -c.x restricted
m = op.mapping
for a in pf.assets:
    idx = m.index[m.asset==a.name].unique()
    print(a.name, round(out['DCF'][a.name].sum(),5), round(-(op.c[idx]*r.x[idx]).sum(),5))
print('--- split per asset')
m = ops.mapping
for a in pf.assets:
    idx = m.index[m.asset==a.name].unique()
    print(a.name, round(out2['DCF'][a.name].sum(),5), round(-(ops.c[idx]*rs.x[idx]).sum(),5), 'nvars', len(idx))
print('total -c.x', -(ops.c*rs.x).sum(), 'len c', len(ops.c), 'len x', len(rs.x), 'uniq idx', m.index.nunique())
print(m[m.asset=='ob'])
